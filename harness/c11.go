package main

import (
	"encoding/json"
	"fmt"
	"strings"

	"github.com/teivah/majorana/risc"
)

type asmLine struct {
	K    string `json:"k"`
	Ins  Ins    `json:"ins"`
	Deco string `json:"deco"`
	Name string `json:"name"`
	Form string `json:"form"`
}

type asmProg struct {
	Mode   string          `json:"mode"`
	Lines  []asmLine       `json:"lines"`
	Expect string          `json:"expect"`
	Count  int             `json:"count"`
	Labels json.RawMessage `json:"labels"`
	Cases  []isaCase       `json:"cases"`
	Raw    []int           `json:"raw"`
}

const rawAlphabet = "a0- \t,():#\n"

var badForms = map[string]string{
	"missing_operand":        "add t0, t1",
	"extra_operand":          "add t0, t1, t2, t3",
	"unknown_register":       "add t0, t1, x9",
	"unknown_mnemonic":       "foo t0, t1",
	"hex_immediate":          "addi t0, t1, 0x10",
	"word_immediate":         "addi t0, t1, ten",
	"huge_immediate":         "li t0, 4294967296",
	"truncated_offset":       "lw t0, 0(",
	"unclosed_offset":        "lw t0, 0(t1",
	"garbage_after_register": "lw t0, 0(t11",
	"no_paren_offset":        "lw t0, 0 t1",
	"empty_operand":          "add t0, , t2",
	"register_as_immediate":  "addi t0, t1, t2",
	"lone_comma":             "add ,",
	"huge_offset":            "lw t0, 4294967300(t1)",
	"huge_store_offset":      "sb t1, 4294967296(t0)",
	"huge_addi":              "addi t0, t1, 4294967297",
	"huge_negative":          "li t0, -4294967297",
}

var silentForms = map[string]string{
	"label_with_comment": "L7: # the loop",
	"tab_separator":      "addi\tt0, t1, 5",
	"label_with_space":   "L7 :",
	"colon_only":         ":",
	"digit_label":        "1:",
}

func decorate(i Ins, deco string) string {
	text := i.Text()
	mn, rest, _ := strings.Cut(text, " ")
	upper := func() { mn = strings.ToUpper(mn) }
	dollar := func() {
		// prefix every register name with $
		for _, r := range regNames {
			for _, sep := range []string{" ", ",", "("} {
				_ = sep
			}
			_ = r
		}
		fields := strings.FieldsFunc(rest, func(c rune) bool { return c == ',' || c == ' ' || c == '(' || c == ')' })
		seen := map[string]bool{}
		for _, f := range fields {
			isReg := false
			for _, r := range regNames {
				if r == f {
					isReg = true
				}
			}
			if isReg && !seen[f] {
				seen[f] = true
			}
		}
		// rebuild token-wise to avoid replacing inside other tokens
		var sb strings.Builder
		tok := ""
		flush := func() {
			if seen[tok] {
				sb.WriteString("$" + tok)
			} else {
				sb.WriteString(tok)
			}
			tok = ""
		}
		for _, ch := range rest {
			if ch == ',' || ch == ' ' || ch == '(' || ch == ')' {
				flush()
				sb.WriteRune(ch)
			} else {
				tok += string(ch)
			}
		}
		flush()
		rest = sb.String()
	}
	join := func() string {
		if rest == "" {
			return mn
		}
		return mn + " " + rest
	}
	switch deco {
	case "plain":
		return join()
	case "indent2":
		return "  " + join()
	case "tab":
		return "\t" + join()
	case "comment":
		return join() + " # trailing, comment with (parens) and a : colon"
	case "commentcolon":
		return join() + "   # first step:"
	case "upper":
		upper()
		return join()
	case "dollar":
		dollar()
		return join()
	case "commaspace":
		rest = strings.ReplaceAll(rest, ", ", " , ")
		return join()
	case "nospace":
		rest = strings.ReplaceAll(rest, ", ", ",")
		return join()
	case "zeropad":
		// decimal immediates may carry leading zeros
		hasImm := false
		switch i.Op {
		case "addi", "andi", "ori", "xori", "slti", "slli", "srli", "srai", "li", "lui", "auipc", "lb", "lh", "lw", "sb", "sh", "sw", "jalr":
			hasImm = true
		}
		if hasImm {
			dec := fmt.Sprint(i.Imm)
			pad := "00" + dec
			if i.Imm < 0 {
				pad = "-00" + dec[1:]
			}
			idx := strings.LastIndex(rest, dec)
			if i.Op == "lb" || i.Op == "lh" || i.Op == "lw" || i.Op == "sb" || i.Op == "sw" {
				idx = strings.Index(rest, dec+"(")
			}
			if idx >= 0 {
				rest = rest[:idx] + pad + rest[idx+len(dec):]
			}
		}
		return join()
	case "all":
		upper()
		dollar()
		rest = strings.ReplaceAll(rest, ", ", " ,  ")
		return "    " + join() + "   # all decorations"
	}
	panic("unknown decoration " + deco)
}

func (l asmLine) render() string {
	switch l.K {
	case "blank":
		switch l.Deco {
		case "empty":
			return ""
		case "spaces":
			return "   "
		}
		return "\t"
	case "comment":
		if l.Deco == "indented" {
			return "    # an indented comment, with a comma"
		}
		return "# a comment: add t0, t1, t2"
	case "label":
		if l.Deco == "indented" {
			return "  " + l.Name + ":"
		}
		return l.Name + ":"
	case "ins":
		return decorate(l.Ins, l.Deco)
	case "bad":
		return badForms[l.Form]
	case "silent":
		return silentForms[l.Form]
	}
	panic("unknown line kind " + l.K)
}

func (p asmProg) text() string {
	if p.Mode == "raw" {
		var sb strings.Builder
		for _, c := range p.Raw {
			sb.WriteByte(rawAlphabet[c])
		}
		return sb.String()
	}
	ls := make([]string, len(p.Lines))
	for i, l := range p.Lines {
		ls[i] = l.render()
	}
	return strings.Join(ls, "\n")
}

// checkAsm returns (category, detail) mismatches for one text.
func checkAsm(p asmProg) (mism [][2]string) {
	bad := func(cat, format string, a ...any) { mism = append(mism, [2]string{cat, fmt.Sprintf(format, a...)}) }
	text := p.text()
	var app risc.Application
	var err error
	func() {
		defer func() {
			if r := recover(); r != nil {
				bad("panic", "risc.Parse panics: %v", r)
				err = fmt.Errorf("panic")
			}
		}()
		app, err = risc.Parse(text)
	}()
	if len(mism) > 0 {
		return
	}
	switch p.Expect {
	case "reject":
		if err == nil {
			form := ""
			for _, l := range p.Lines {
				if l.K == "bad" {
					form = l.Form
				}
			}
			bad("accepted:"+form, "malformed text accepted (%d instructions)", len(app.Instructions))
		}
	case "accept":
		if err != nil {
			deco := ""
			for _, l := range p.Lines {
				if l.K == "ins" && l.Deco != "plain" {
					deco = l.Deco
				}
			}
			bad("rejected:"+deco, "well-formed text rejected: %v", err)
			return
		}
		if len(app.Instructions) != p.Count {
			bad("count", "%d instructions, want %d", len(app.Instructions), p.Count)
			return
		}
		var want map[string][]int32
		if len(p.Labels) > 0 && p.Labels[0] == '{' {
			_ = json.Unmarshal(p.Labels, &want)
		}
		for name, addrs := range want {
			got, ok := app.Labels[name]
			if !ok {
				bad("label", "label %s is not defined", name)
				continue
			}
			okAddr := false
			for _, a := range addrs {
				if a == got {
					okAddr = true
				}
			}
			if !okAddr {
				bad("label", "label %s = %d, want %v", name, got, addrs)
			}
		}
		if len(app.Labels) != len(want) {
			bad("label", "labels %v, want exactly %v", app.Labels, want)
		}
		for k, c := range p.Cases {
			for _, m := range checkIsaRunner(c, app.Instructions[k], 1024) {
				bad("operand:"+m[0], "instruction %d (%s): %s", k, c.Ins.Text(), m[1])
			}
		}
	}
	return
}

func init() {
	register("C11", func(r *Reporter) {
		r.Level = "model_checking"
		r.Cov["rule"] = "TLC enumerates spec/Asm.tla: every text of at most MaxLines abstract lines (blank, comment, label, each of the 45 mnemonics with 10 decorations, 14 malformations, 5 grammar-silent forms) and every raw string up to the length bound over an 11-character alphabet; each is rendered and passed to risc.Parse under recover; accepted texts are compared with the specification (instruction count, label addresses, decoded operands through the RV32 effect on a marked register file), malformed texts must be rejected, everything must be total. Distinct by rendered text; non-trivial = contains an instruction, label or malformation"
		r.Assumptions = []string{"the rendering of an abstract line (harness/c11.go) is trusted", "texts longer than the bounds and bytes outside the raw alphabet are not explored"}
		type run struct{ consts string }
		var runs []run
		if tier == "thorough" {
			runs = []run{{" Mode = \"lines\"\n MaxLines = 2\n Rich = TRUE\n"}, {" Mode = \"lines\"\n MaxLines = 4\n Rich = FALSE\n"}, {" Mode = \"raw\"\n MaxLines = 5\n Rich = FALSE\n"}}
		} else {
			runs = []run{{" Mode = \"lines\"\n MaxLines = 1\n Rich = TRUE\n"}, {" Mode = \"lines\"\n MaxLines = 3\n Rich = FALSE\n"}, {" Mode = \"raw\"\n MaxLines = 4\n Rich = FALSE\n"}}
		}
		for _, ru := range runs {
			cfg := "INIT Init\nNEXT Next\nINVARIANT Emit\nCONSTANTS\n" + ru.consts
			ch := make(chan asmProg, 256)
			done := make(chan struct{})
			go func() {
				parallel(ch, 8, func(p asmProg) {
					text := p.text()
					nontrivial := p.Mode == "raw" && strings.TrimSpace(text) != ""
					for _, l := range p.Lines {
						if l.K != "blank" && l.K != "comment" {
							nontrivial = true
						}
					}
					r.Eval(hashKey(text), nontrivial)
					if nontrivial && p.Mode == "lines" {
						r.Sample(map[string]any{"text": text, "expect": p.Expect, "count": p.Count})
					}
					for _, m := range checkAsm(p) {
						tag := "asm:" + m[0]
						what := fmt.Sprintf("%q: %s", text, m[1])
						if id := matchFinding("C11", []string{tag}, nil, m[0]); id != "" {
							r.Known(id, what)
							continue
						}
						pp := p
						r.ViolateMin(tag, len(text), what, func() any { return map[string]any{"text": text, "case": pp} })
					}
				})
				close(done)
			}()
			st, err := RunTLC(TLCOpts{Module: "Asm", Cfg: cfg}, func(raw []byte) {
				var p asmProg
				if err := json.Unmarshal(raw, &p); err != nil {
					inconclusive("bad asm case: %v: %s", err, raw)
				}
				ch <- p
			})
			close(ch)
			<-done
			if err != nil {
				inconclusive("TLC Asm: %v", err)
			}
			r.addTLC(st)
			r.addTraces(st.Lines)
		}
	})
}
