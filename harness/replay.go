package main

import (
	"encoding/json"
	"fmt"
	"os"
	"path/filepath"
	"strings"

	mbytes "github.com/teivah/majorana/common/bytes"
)

// replayFile re-executes the case of a replay file written by Violate and reports
// whether the deviation is still observed (exit 1) or not (exit 0). The stored
// expectation comes from the specification run that produced the file.
func replayFile(r *Reporter, path string) {
	b, err := os.ReadFile(path)
	if err != nil {
		inconclusive("%v", err)
	}
	var f struct {
		Property string          `json:"property"`
		What     string          `json:"what"`
		Case     json.RawMessage `json:"case"`
	}
	if err := json.Unmarshal(b, &f); err != nil {
		inconclusive("%v", err)
	}
	r.Eval("replay", true)
	r.Eval("replay-b", true)
	r.Sample(map[string]any{"replay": filepath.Base(path), "what": f.What})
	var probe map[string]json.RawMessage
	_ = json.Unmarshal(f.Case, &probe)
	still := func(what string) { r.Violate("replay-"+hashKey(path), what, json.RawMessage(f.Case)) }
	switch {
	case probe["events"] != nil: // rig schedule
		var s rigSchedule
		_ = json.Unmarshal(f.Case, &s)
		snaps, pm, stuck := runSchedule(s)
		if pm != "" {
			still("rig schedule still panics: " + pm)
			return
		}
		if stuck {
			still("rig schedule still does not complete")
			return
		}
		dir := newWorkDir("replay")
		tw := newTraceWriter(filepath.Join(dir, "t.ndjson"))
		tw.addRun(s, snaps)
		tw.close()
		for _, cl := range validateTrace(r, filepath.Join(dir, "t.ndjson"), tw.lines) {
			for name, line := range cl {
				still(fmt.Sprintf("clause %s still false at trace line %d", name, line))
			}
		}
	case probe["prog"] != nil && probe["variant"] != nil: // program on one configuration
		var p struct {
			Prog     []Ins            `json:"prog"`
			Variant  string           `json:"variant"`
			Par      int              `json:"par"`
			WU       int              `json:"wu"`
			Regs0    map[string]int32 `json:"regs0"`
			Img      string           `json:"img"`
			MemSize  int              `json:"memSize"`
			Expected struct {
				Status string           `json:"status"`
				Regs   map[string]int32 `json:"regs"`
				Mem    sparseMem        `json:"mem"`
				N      int              `json:"n"`
			} `json:"expected"`
		}
		if err := json.Unmarshal(f.Case, &p); err != nil {
			inconclusive("%v", err)
		}
		c := &ProgCase{Fam: "replay", Prog: p.Prog, Regs0: p.Regs0, Img: p.Img, MemSize: p.MemSize}
		c.Exp.Status, c.Exp.Regs, c.Exp.Mem, c.Exp.N = p.Expected.Status, p.Expected.Regs, p.Expected.Mem, p.Expected.N
		o := Observe(c, Config{Variant: p.Variant, Par: p.Par, WU: p.WU})
		if propID == "C06" {
			dir := newWorkDir("replay")
			tw := newTraceWriter(filepath.Join(dir, "t.ndjson"))
			tw.addRun(nil, cpuSnapshots(c, Config{Variant: p.Variant, Par: p.Par}))
			tw.close()
			for _, cl := range validateTrace(r, filepath.Join(dir, "t.ndjson"), tw.lines) {
				for name, line := range cl {
					still(fmt.Sprintf("clause %s still false at trace line %d", name, line))
				}
			}
			return
		}
		if o.Symptom() != "" {
			still(fmt.Sprintf("%s on %s/%d still deviates: %s", oneLine(p.Prog), p.Variant, p.Par, o.Describe()))
		} else {
			fmt.Printf("replay: %s on %s/%d now agrees with the sequential result (cycle/determinism deviations are not re-checked by replay)\n", oneLine(p.Prog), p.Variant, p.Par)
		}
	case probe["geom"] != nil:
		var h lcHist
		_ = json.Unmarshal(f.Case, &h)
		if cat, d, st := replayLineCache(h); cat != "" {
			still(fmt.Sprintf("step %d: %s", st, d))
		}
	case probe["cap"] != nil && probe["hist"] != nil:
		var h kvHist
		_ = json.Unmarshal(f.Case, &h)
		if cat, d, st := replayKV(h, []int{0, 1, 2}); cat != "" {
			still(fmt.Sprintf("step %d: %s", st, d))
		}
	case probe["caps"] != nil:
		var h busHist
		_ = json.Unmarshal(f.Case, &h)
		if cat, d, st := replayBus(h); cat != "" {
			still(fmt.Sprintf("step %d: %s", st, d))
		}
	case probe["mode"] != nil && probe["ring"] != nil:
		var h txHist
		_ = json.Unmarshal(f.Case, &h)
		for _, m := range replayTx(h) {
			still(fmt.Sprintf("%s: %s", m[0], m[1]))
		}
	case probe["text"] != nil:
		var a struct {
			Case asmProg `json:"case"`
		}
		_ = json.Unmarshal(f.Case, &a)
		for _, m := range checkAsm(a.Case) {
			still(strings.Join(m[:], ": "))
		}
	case probe["ins"] != nil:
		var c isaCase
		_ = json.Unmarshal(f.Case, &c)
		for _, m := range checkIsaCase(c) {
			still(strings.Join(m[:], ": "))
		}
	case probe["word"] != nil || probe["bytes"] != nil:
		var w struct {
			Word  int32   `json:"word"`
			Want  [4]int8 `json:"want"`
			Bytes [4]int8 `json:"bytes"`
		}
		_ = json.Unmarshal(f.Case, &w)
		if probe["word"] != nil && mbytes.BytesFromLowBits(w.Word) != w.Want {
			still(fmt.Sprintf("BytesFromLowBits(%d) still differs from %v", w.Word, w.Want))
		}
	default:
		inconclusive("replay file %s has no recognised case", path)
	}
}
