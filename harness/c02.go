package main

import (
	"encoding/json"
	"fmt"
	"sort"
	"strings"

	"github.com/teivah/majorana/risc"
)

// isaCase is one transition emitted by spec/IsaCases.tla.
type isaCase struct {
	Ins    Ins              `json:"ins"`
	Pc     int32            `json:"pc"`
	Img    string           `json:"img"`
	Regs0  map[string]int32 `json:"regs0"`
	Kind   string           `json:"kind"`
	Erd    string           `json:"erd"`
	Eval   int32            `json:"eval"`
	Eaddr  int32            `json:"eaddr"`
	Ebytes []int            `json:"ebytes"`
	Eloads []int32          `json:"eloads"`
	Enext  int32            `json:"enext"`
	Regs1  map[string]int32 `json:"regs1"`
	Reads  []string         `json:"reads"`
	Writes []string         `json:"writes"`
}

const isaMem = 128

func regSet(rs []risc.RegisterType) []string {
	m := map[string]bool{}
	for _, r := range rs {
		if r != risc.Zero {
			m[regName(r)] = true
		}
	}
	out := make([]string, 0, len(m))
	for k := range m {
		out = append(out, k)
	}
	sort.Strings(out)
	return out
}

func sameStrings(a, b []string) bool {
	a = append([]string(nil), a...)
	b = append([]string(nil), b...)
	sort.Strings(a)
	sort.Strings(b)
	return strings.Join(a, ",") == strings.Join(b, ",")
}

// checkIsaCase replays one case; it returns a list of (category, detail) mismatches.
func checkIsaCase(c isaCase) (mism [][2]string) {
	bad := func(cat, format string, a ...any) { mism = append(mism, [2]string{cat, fmt.Sprintf(format, a...)}) }
	defer func() {
		if p := recover(); p != nil {
			bad("panic", "Go panic: %v", p)
		}
	}()
	app, err := risc.Parse(c.Ins.Text())
	if err != nil || len(app.Instructions) != 1 {
		bad("parse", "cannot parse %q: %v", c.Ins.Text(), err)
		return
	}
	return checkIsaRunner(c, app.Instructions[0], isaMem)
}

// checkIsaRunner compares one instruction runner with the effect the specification defines.
func checkIsaRunner(c isaCase, runner risc.InstructionRunner, isaMem int) (mism [][2]string) {
	bad := func(cat, format string, a ...any) { mism = append(mism, [2]string{cat, fmt.Sprintf(format, a...)}) }
	defer func() {
		if p := recover(); p != nil {
			bad("panic", "Go panic: %v", p)
		}
	}()
	ctx := risc.NewContext(false, isaMem, false)
	for a := 0; a < isaMem; a++ {
		ctx.Memory[a] = int8(ImgByte(c.Img, a))
	}
	for r, v := range c.Regs0 {
		ctx.Registers[regByName(r)] = v
	}
	labels := map[string]int32{"L7": 28}

	if got := regSet(runner.ReadRegisters()); !sameStrings(got, c.Reads) {
		bad("readset", "ReadRegisters = %v, want %v", got, c.Reads)
	}
	if got := regSet(runner.WriteRegisters()); !sameStrings(got, c.Writes) {
		bad("writeset", "WriteRegisters = %v, want %v", got, c.Writes)
	}
	if c.Kind == "oob" || c.Kind == "misaligned" {
		return
	}
	addrs := runner.MemoryRead(ctx, 0)
	if fmt.Sprint(addrs) != fmt.Sprint(c.Eloads) && !(len(addrs) == 0 && len(c.Eloads) == 0) {
		bad("loadaddrs", "MemoryRead = %v, want %v", addrs, c.Eloads)
	}
	var memory []int8
	for _, a := range addrs {
		if a < 0 || int(a) >= isaMem {
			bad("loadaddrs", "MemoryRead address %d out of range", a)
			return
		}
		memory = append(memory, ctx.Memory[a])
	}
	waddrs := runner.MemoryWrite(ctx, 0)
	exe, err := runner.Run(ctx, labels, c.Pc, memory, 0)
	if c.Kind == "err" {
		if err == nil {
			bad("noerror", "defined error expected, Run returned nil error (exe=%+v)", exe)
		}
		return
	}
	if err != nil {
		bad("error", "unexpected error %v", err)
		return
	}
	if c.Kind == "ret" {
		if !exe.Return {
			bad("ret", "Return flag not set")
		}
		return
	}
	if exe.Return {
		bad("ret", "Return flag set on %s", c.Ins.Op)
	}
	next := c.Pc + 4
	if exe.PcChange {
		next = exe.NextPc
	}
	if next != c.Enext {
		bad("nextpc", "next pc = %d, want %d", next, c.Enext)
	}
	// apply the execution the way risc.Runner does
	if exe.RegisterChange {
		ctx.WriteRegister(exe)
	} else if exe.MemoryChange {
		ctx.WriteMemory(exe)
	}
	switch c.Kind {
	case "reg":
		if c.Erd != "zero" {
			if !exe.RegisterChange {
				bad("value", "no register change, want %s := %d", c.Erd, c.Eval)
			} else if regName(exe.Register) != c.Erd || exe.RegisterValue != c.Eval {
				bad("value", "writes %s := %d, want %s := %d", regName(exe.Register), exe.RegisterValue, c.Erd, c.Eval)
			}
		} else if exe.RegisterChange && exe.Register != risc.Zero {
			bad("value", "writes %s, want no visible write (rd = zero)", regName(exe.Register))
		}
		if exe.MemoryChange {
			bad("value", "unexpected memory change")
		}
	case "mem":
		if !exe.MemoryChange {
			bad("store", "no memory change")
		} else {
			want := map[int32]int8{}
			for k, b := range c.Ebytes {
				want[c.Eaddr+int32(k)] = int8(byte(b))
			}
			if fmt.Sprint(want) != fmt.Sprint(exe.MemoryChanges) {
				bad("store", "stores %v, want %v", exe.MemoryChanges, want)
			}
			ws := map[int32]bool{}
			for _, a := range waddrs {
				ws[a] = true
			}
			if len(ws) != len(want) {
				bad("storeaddrs", "MemoryWrite = %v, want the %d addresses from %d", waddrs, len(want), c.Eaddr)
			} else {
				for a := range want {
					if !ws[a] {
						bad("storeaddrs", "MemoryWrite = %v misses %d", waddrs, a)
						break
					}
				}
			}
		}
	case "none":
		if exe.RegisterChange && exe.Register != risc.Zero {
			bad("value", "unexpected register change %s", regName(exe.Register))
		}
		if exe.MemoryChange {
			bad("value", "unexpected memory change")
		}
	}
	// whole post-state
	if ctx.Registers[risc.Zero] != 0 {
		bad("zeroreg", "zero register holds %d", ctx.Registers[risc.Zero])
	}
	for reg, v := range ctx.Registers {
		if reg == risc.Zero {
			continue
		}
		if want := c.Regs1[regName(reg)]; v != want {
			bad("poststate", "after the instruction %s = %d, want %d", regName(reg), v, want)
		}
	}
	for name, want := range c.Regs1 {
		if got := ctx.Registers[regByName(name)]; got != want {
			bad("poststate", "after the instruction %s = %d, want %d", name, got, want)
		}
	}
	for a := 0; a < isaMem; a++ {
		want := int8(ImgByte(c.Img, a))
		if c.Kind == "mem" && a >= int(c.Eaddr) && a < int(c.Eaddr)+len(c.Ebytes) {
			want = int8(byte(c.Ebytes[a-int(c.Eaddr)]))
		}
		if ctx.Memory[a] != want {
			bad("poststate", "memory[%d] = %d, want %d", a, ctx.Memory[a], want)
			break
		}
	}
	return
}

func init() {
	register("C02", func(r *Reporter) {
		r.Level = "model_checking"
		r.Cov["rule"] = "TLC enumerates spec/IsaCases.tla exhaustively (mnemonic x operand lattice x register alias pattern x immediate, plus NRand seeded random 32-bit operand pairs per mnemonic and alias); every generated transition is replayed on risc.InstructionRunner (MemoryRead/Run/MemoryWrite/ReadRegisters/WriteRegisters) and the whole post-state is compared; a case is distinct by (instruction text, pc, operand values, image); all are non-trivial (each is a different input)"
		r.Cov["exhaustive"] = true
		r.Assumptions = []string{"operand pairs outside the lattice and the random sample are not explored", "jalr targets are kept 4-byte aligned", "shift immediates stay in 0..31 (the encodable range)"}
		lat, nrand := "small", "2"
		if tier == "thorough" {
			lat, nrand = "full", "40"
		}
		if replayArg != "" {
			replayIsa(r)
			return
		}
		cfg := fmt.Sprintf("INIT Init\nNEXT Next\nINVARIANT Emit\nCONSTANTS\n LatSize = \"%s\"\n NRand = %s\n", lat, nrand)
		ops := map[string]bool{}
		st, err := RunTLC(TLCOpts{Module: "IsaCases", Cfg: cfg, Seed: seed}, func(raw []byte) {
			var c isaCase
			if err := json.Unmarshal(raw, &c); err != nil {
				inconclusive("bad case json: %v", err)
			}
			handleIsa(r, c)
			ops[c.Ins.Op] = true
		})
		if err != nil {
			inconclusive("TLC failed: %v", err)
		}
		r.addTLC(st)
		r.addTraces(st.Lines)
		r.Cov["mnemonics_covered"] = len(ops)
		if len(ops) != 45 {
			inconclusive("only %d of 45 mnemonics generated", len(ops))
		}
	})
}

func handleIsa(r *Reporter, c isaCase) {
	key := hashKey(c.Ins.Text(), fmt.Sprint(c.Pc), fmt.Sprint(c.Regs0), c.Img)
	r.Eval(key, true)
	r.Sample(map[string]any{"ins": c.Ins.Text(), "pc": c.Pc, "regs0": c.Regs0, "expect_kind": c.Kind, "expect_rd": c.Erd, "expect_val": c.Eval, "expect_next": c.Enext})
	for _, m := range checkIsaCase(c) {
		tag := "isa:" + c.Ins.Op + ":" + m[0]
		what := fmt.Sprintf("%s [%s] regs0={%s} pc=%d: %s", c.Ins.Text(), m[0], fmtRegs(c.Regs0), c.Pc, m[1])
		if id := matchFinding("C02", []string{tag}, nil, m[0]); id != "" {
			r.Known(id, what)
			continue
		}
		r.Violate(hashKey(tag), what, c)
	}
}

func replayIsa(r *Reporter) {
	var f struct {
		Case isaCase `json:"case"`
	}
	b, err := readFile(replayArg)
	if err != nil {
		inconclusive("%v", err)
	}
	if err := json.Unmarshal(b, &f); err != nil {
		inconclusive("%v", err)
	}
	handleIsa(r, f.Case)
	r.Eval("replay2", true) // evidence schema wants >= 2 distinct
}
