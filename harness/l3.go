package main

import (
	"fmt"
	"strings"
)

// l3Matrix explores spec/L3.tla (the shared L3 of MVP-8) at the design level: the repaired design must
// satisfy every invariant; each as-coded decision is then switched on alone, and all together, and the
// invariants TLC refutes are listed (one TLC run per invariant for the as-coded design, so that every
// broken property is named, not only the first).  The counter-examples are predictions: they explain
// finding F05a (known_findings.json), whose real-code witnesses are the rig family H and the MemWalk
// runs beyond 32 L3 lines.
func l3Matrix(r *Reporter) (repairedOK bool, table []string) {
	invs := []string{"NoPanic", "CoherentRead", "LockOwned", "NothingLost", "WithinCapacity", "NoDeadlock"}
	type fl struct {
		name                         string
		inv, wait, capt, hold, decid string
	}
	sets := []fl{
		{"repaired", "FALSE", "TRUE", "FALSE", "TRUE", "TRUE"},
		{"only: inverted TryLock in the L3 snoop paths", "TRUE", "TRUE", "FALSE", "TRUE", "TRUE"},
		{"only: the read path does not wait for the L3 victim", "FALSE", "FALSE", "FALSE", "TRUE", "TRUE"},
		{"only: memory is read when the fetch is issued", "FALSE", "TRUE", "TRUE", "TRUE", "TRUE"},
		{"only: the L3 mutex is released before the L1 fill", "FALSE", "TRUE", "FALSE", "FALSE", "TRUE"},
		{"only: write-back or eviction is decided when the command is issued", "FALSE", "TRUE", "FALSE", "TRUE", "FALSE"},
		{"as coded", "TRUE", "FALSE", "TRUE", "FALSE", "FALSE"},
	}
	consts := func(s fl) string {
		return fmt.Sprintf(" Cores = {0, 1}\n XLines = {1, 2, 3}\n Cap3 = 1\n MaxOps = 2\n TryLockInverted = %s\n WaitInReadPath = %s\n CaptureAtIssue = %s\n HoldLockUntilFill = %s\n DecideAtExecution = %s\n", s.inv, s.wait, s.capt, s.hold, s.decid)
	}
	repairedOK = true
	for _, s := range sets {
		var broken []string
		groups := [][]string{invs}
		if s.name == "as coded" {
			groups = nil
			for _, i := range invs {
				groups = append(groups, []string{i})
			}
		}
		for _, g := range groups {
			cfg := "SPECIFICATION Spec\nINVARIANTS " + strings.Join(g, " ") + "\nCONSTANTS\n" + consts(s)
			st, err := RunTLC(TLCOpts{Module: "L3", Cfg: cfg, Workers: 8}, nil)
			if err != nil {
				inconclusive("TLC L3: %v", err)
			}
			r.addTLC(st)
			if st.Violated != "" {
				broken = append(broken, st.Violated)
			}
		}
		res := "every invariant holds"
		if len(broken) > 0 {
			res = "violates " + strings.Join(broken, ", ")
			if s.name == "repaired" {
				repairedOK = false
			}
		}
		table = append(table, fmt.Sprintf("%s: %s", s.name, res))
	}
	return
}

func init() {
	register("l3", func(r *Reporter) {
		ok, table := l3Matrix(r)
		for _, l := range table {
			fmt.Println("  " + l)
		}
		if !ok {
			inconclusive("the repaired L3 design violates an invariant")
		}
		r.Eval("a", true)
		r.Eval("b", true)
	})
}
