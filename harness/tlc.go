package main

import (
	"bufio"
	"encoding/json"
	"fmt"
	"io"
	"os"
	"os/exec"
	"path/filepath"
	"regexp"
	"strconv"
	"strings"
	"sync"
	"time"
)

const (
	tlaJar  = "/opt/veriftools/tla/tla2tools.jar"
	tlaDeps = "/opt/veriftools/tla/CommunityModules-deps.jar"
)

// TLCOpts describes one TLC invocation on a module of /verif/spec.
type TLCOpts struct {
	Module        string            // module name without .tla
	Cfg           string            // cfg text (written next to the module)
	Simulate      string            // "" for BFS, else e.g. "num=500"
	Depth         int               // -depth for simulation
	Seed          int64             // -seed (simulation)
	Workers       int               // 0 => 16 for BFS, 1 for simulation
	Env           map[string]string // extra environment (IOEnv in specs)
	Timeout       time.Duration
	DFS           bool // use the depth-first state queue (trace validation with branching)
	Coverage      bool
	Files         map[string]string // extra files written into the scratch dir
	CheckDeadlock bool              // leave TLC's deadlock check on
}

// TLCStats is what TLC reported about the run.
type TLCStats struct {
	Generated  int64
	Distinct   int64
	Lines      int64 // JSON lines emitted by the spec
	WallS      float64
	Output     string // non-JSON output (tail)
	ExitCode   int
	Violated   string // name of a violated invariant/property if any
	PostFailed bool
}

var (
	reStates   = regexp.MustCompile(`(\d+) states generated, (\d+) distinct states found`)
	reSimStats = regexp.MustCompile(`(\d+) states checked`)
	reInv      = regexp.MustCompile(`Invariant (\S+) is violated`)
	workSeq    int
	workMu     sync.Mutex
)

func workRoot() string {
	return fmt.Sprintf("/verif/.work/%s.%d", propID, os.Getpid())
}

func newWorkDir(tag string) string {
	workMu.Lock()
	workSeq++
	n := workSeq
	workMu.Unlock()
	d := filepath.Join(workRoot(), fmt.Sprintf("%s.%d", tag, n))
	must(os.MkdirAll(d, 0o755))
	return d
}

func must(err error) {
	if err != nil {
		inconclusive("infrastructure error: %v", err)
	}
}

// RunTLC runs TLC and calls onJSON for every JSON value the spec prints with
// PrintT(ToJson(..)).  The callback may be called from the reader goroutine only.
func RunTLC(o TLCOpts, onJSON func(raw []byte)) (TLCStats, error) {
	var st TLCStats
	dir := newWorkDir(o.Module)
	if os.Getenv("VERIF_KEEP") == "" {
		defer os.RemoveAll(dir)
	}
	specs, _ := filepath.Glob("/verif/spec/*.tla")
	for _, s := range specs {
		b, err := os.ReadFile(s)
		if err != nil {
			return st, err
		}
		if err := os.WriteFile(filepath.Join(dir, filepath.Base(s)), b, 0o644); err != nil {
			return st, err
		}
	}
	for name, content := range o.Files {
		if err := os.WriteFile(filepath.Join(dir, name), []byte(content), 0o644); err != nil {
			return st, err
		}
	}
	cfgPath := filepath.Join(dir, o.Module+".cfg")
	if err := os.WriteFile(cfgPath, []byte(o.Cfg), 0o644); err != nil {
		return st, err
	}
	workers := o.Workers
	if workers == 0 {
		if o.Simulate != "" {
			workers = 1
		} else {
			workers = 16
		}
	}
	heap := "-Xmx12g"
	if tier == "thorough" {
		heap = "-Xmx24g" // the four-line run of C11 keeps ~10^7 states with whole texts in them
	}
	args := []string{"-XX:+UseParallelGC", "-Xss256m", heap, "-Djava.io.tmpdir=" + dir}
	if o.DFS {
		args = append(args, "-Dtlc2.tool.queue.IStateQueue=StateDeque")
	}
	args = append(args, "-cp", tlaJar+":"+tlaDeps, "tlc2.TLC",
		"-metadir", filepath.Join(dir, "meta"), "-workers", strconv.Itoa(workers), "-config", cfgPath, "-noGenerateSpecTE")
	if o.Simulate != "" {
		args = append(args, "-simulate", o.Simulate, "-depth", strconv.Itoa(o.Depth), "-seed", strconv.FormatInt(o.Seed, 10))
	}
	if o.Coverage {
		args = append(args, "-coverage", "1")
	}
	if !o.CheckDeadlock {
		args = append(args, "-deadlock")
	}
	args = append(args, filepath.Join(dir, o.Module+".tla"))
	timeout := o.Timeout
	if timeout == 0 {
		// wall-clock, and TLC is throttled by the consumers of its output (the real runs): generous
		timeout = 45 * time.Minute
		if tier == "thorough" {
			timeout = 4 * time.Hour
		}
	}
	cmd := exec.Command("java", args...)
	cmd.Dir = dir
	cmd.Env = os.Environ()
	if _, set := o.Env["VERIF_CYC4"]; !set {
		// the program families evaluate the cycle-accurate MVP-4/5 model for short runs (spec/ProgCommon)
		cmd.Env = append(cmd.Env, "VERIF_CYC4=1")
	}
	for k, v := range o.Env {
		cmd.Env = append(cmd.Env, k+"="+v)
	}
	stdout, err := cmd.StdoutPipe()
	if err != nil {
		return st, err
	}
	cmd.Stderr = cmd.Stdout
	start := time.Now()
	if err := cmd.Start(); err != nil {
		return st, err
	}
	timer := time.AfterFunc(timeout, func() { _ = cmd.Process.Kill() })
	defer timer.Stop()
	var other []string
	rd := bufio.NewReaderSize(stdout, 1<<20)
	for {
		line, err := rd.ReadBytes('\n')
		if len(line) > 0 {
			l := strings.TrimRight(string(line), "\r\n")
			if strings.HasPrefix(l, `"{`) || strings.HasPrefix(l, `"[`) {
				var inner string
				if e := json.Unmarshal([]byte(l), &inner); e == nil {
					st.Lines++
					if onJSON != nil {
						onJSON([]byte(inner))
					}
					continue
				}
			}
			if m := reStates.FindStringSubmatch(l); m != nil {
				st.Generated, _ = strconv.ParseInt(m[1], 10, 64)
				st.Distinct, _ = strconv.ParseInt(m[2], 10, 64)
			}
			if m := reSimStats.FindStringSubmatch(l); m != nil && st.Generated == 0 {
				st.Generated, _ = strconv.ParseInt(m[1], 10, 64)
				st.Distinct = st.Generated
			}
			if m := reInv.FindStringSubmatch(l); m != nil {
				st.Violated = m[1]
			}
			if strings.Contains(l, "Temporal properties were violated") || strings.Contains(l, "Action property") && strings.Contains(l, "violated") {
				if st.Violated == "" {
					st.Violated = "temporal"
				}
			}
			if strings.Contains(l, "Postcondition") && strings.Contains(l, "violated") || strings.Contains(l, "POSTCONDITION") && strings.Contains(l, "false") {
				st.PostFailed = true
			}
			if len(other) < 400 {
				other = append(other, l)
			}
		}
		if err != nil {
			if err != io.EOF {
				return st, err
			}
			break
		}
	}
	werr := cmd.Wait()
	st.WallS = time.Since(start).Seconds()
	st.Output = strings.Join(other, "\n")
	if cmd.ProcessState != nil {
		st.ExitCode = cmd.ProcessState.ExitCode()
	}
	if werr != nil && st.Violated == "" && !st.PostFailed {
		// exit codes: 0 ok, 10..13 violations, others = errors
		return st, fmt.Errorf("tlc exit %d: %s", st.ExitCode, head(st.Output, 60))
	}
	return st, nil
}

func head(s string, n int) string {
	ls := strings.Split(s, "\n")
	// skip the banner
	start := 0
	for i, l := range ls {
		if strings.HasPrefix(l, "Error") || strings.Contains(l, "rror:") {
			start = i
			break
		}
	}
	ls = ls[start:]
	if len(ls) > n {
		ls = ls[:n]
	}
	return strings.Join(ls, "\n")
}

func tail(s string, n int) string {
	ls := strings.Split(s, "\n")
	if len(ls) > n {
		ls = ls[len(ls)-n:]
	}
	return strings.Join(ls, "\n")
}
