package main

import (
	"fmt"
	"strings"
)

// Ins is the abstract instruction of spec/RV32.tla.
type Ins struct {
	Op  string `json:"op"`
	Rd  string `json:"rd"`
	Rs1 string `json:"rs1"`
	Rs2 string `json:"rs2"`
	Imm int32  `json:"imm"`
	Tgt int    `json:"tgt"`
}

func isCond(op string) bool {
	switch op {
	case "beq", "bne", "blt", "bge", "bltu", "bgeu", "ble", "beqz", "bnez":
		return true
	}
	return false
}

func (i Ins) usesLabel() bool { return isCond(i.Op) || i.Op == "j" || i.Op == "jal" }

func label(t int) string {
	if t < 0 {
		return "Lundef"
	}
	return fmt.Sprintf("L%d", t)
}

// Text renders one instruction in the syntax risc.Parse accepts.
func (i Ins) Text() string {
	switch i.Op {
	case "add", "sub", "and", "or", "xor", "sll", "srl", "sra", "slt", "sltu", "mul", "div", "rem":
		return fmt.Sprintf("%s %s, %s, %s", i.Op, i.Rd, i.Rs1, i.Rs2)
	case "addi", "andi", "ori", "xori", "slti", "slli", "srli", "srai":
		return fmt.Sprintf("%s %s, %s, %d", i.Op, i.Rd, i.Rs1, i.Imm)
	case "li", "lui", "auipc":
		return fmt.Sprintf("%s %s, %d", i.Op, i.Rd, i.Imm)
	case "mv":
		return fmt.Sprintf("mv %s, %s", i.Rd, i.Rs1)
	case "lb", "lh", "lw":
		return fmt.Sprintf("%s %s, %d(%s)", i.Op, i.Rd, i.Imm, i.Rs1)
	case "sb", "sw":
		return fmt.Sprintf("%s %s, %d(%s)", i.Op, i.Rs2, i.Imm, i.Rs1)
	case "sh":
		return fmt.Sprintf("sh %s, %d, %s", i.Rs2, i.Imm, i.Rs1)
	case "beq", "bne", "blt", "bge", "bltu", "bgeu", "ble":
		return fmt.Sprintf("%s %s, %s, %s", i.Op, i.Rs1, i.Rs2, label(i.Tgt))
	case "beqz", "bnez":
		return fmt.Sprintf("%s %s, %s", i.Op, i.Rs1, label(i.Tgt))
	case "j":
		return "j " + label(i.Tgt)
	case "jal":
		return fmt.Sprintf("jal %s, %s", i.Rd, label(i.Tgt))
	case "jalr":
		return fmt.Sprintf("jalr %s, %s, %d", i.Rd, i.Rs1, i.Imm)
	case "nop", "ret":
		return i.Op
	}
	panic("unknown op " + i.Op)
}

// Render turns an abstract program into assembly text. Instruction k is
// preceded by the label line "Lk:" when some instruction targets it; a target
// equal to len(prog) is a label after the last instruction.
func Render(prog []Ins) string {
	targets := map[int]bool{}
	for _, i := range prog {
		if i.usesLabel() && i.Tgt >= 0 {
			targets[i.Tgt] = true
		}
	}
	var sb strings.Builder
	for k, i := range prog {
		if targets[k] {
			fmt.Fprintf(&sb, "L%d:\n", k)
		}
		sb.WriteString("  " + i.Text() + "\n")
	}
	for t := range targets {
		if t >= len(prog) {
			fmt.Fprintf(&sb, "L%d:\n", t)
		}
	}
	return sb.String()
}

func oneLine(prog []Ins) string {
	parts := make([]string, 0, len(prog))
	targets := map[int]bool{}
	for _, i := range prog {
		if i.usesLabel() && i.Tgt >= 0 {
			targets[i.Tgt] = true
		}
	}
	for k, i := range prog {
		s := i.Text()
		if targets[k] {
			s = fmt.Sprintf("L%d: %s", k, s)
		}
		parts = append(parts, s)
	}
	return strings.Join(parts, "; ")
}
