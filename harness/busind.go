package main

import (
	"context"
	"fmt"
	"os"
	"os/exec"
	"path/filepath"
	"strings"
	"time"
)

// busInd discharges with Apalache the inductive invariant of spec/BusInd.tla (the disciplined
// comp.BufferedBus design of spec/Bus.tla, history-free): Init => IndInv and IndInv /\ Next => IndInv'.
// It then shows that the proof is not vacuous: IndInit admits a full bus, an item does reach the
// output side, and three textual changes to the design (no capacity guard on Add, Connect that moves
// items in the cycle they were added, Connect that puts moved items before the visible ones) are each
// refuted.  A triage aid (./check busind): it writes no evidence and decides no property by itself;
// C14's verdict stays with the TLC-generated histories replayed into the real comp.BufferedBus.
func apalache(dir, file string, args ...string) (ok bool, out string, err error) {
	ctx, cancel := context.WithTimeout(context.Background(), 10*time.Minute)
	defer cancel()
	a := append([]string{"check"}, args...)
	a = append(a, "--out-dir="+filepath.Join(dir, "out"), file)
	cmd := exec.CommandContext(ctx, "apalache-mc", a...)
	cmd.Dir = dir
	b, _ := cmd.CombinedOutput()
	out = string(b)
	switch {
	case strings.Contains(out, "EXITCODE: OK"):
		return true, out, nil
	case strings.Contains(out, "EXITCODE: ERROR (12)"): // the invariant is refuted
		return false, out, nil
	}
	return false, out, fmt.Errorf("apalache did not finish: %s", lastLines(out, 5))
}

func lastLines(s string, n int) string {
	l := strings.Split(strings.TrimSpace(s), "\n")
	if len(l) > n {
		l = l[len(l)-n:]
	}
	return strings.Join(l, " | ")
}

type indVariant struct {
	name     string
	edits    [][2]string
	init     string
	inv      string
	length   string
	wantHold bool
	next     string // "" = Next
}

// runInductive runs the obligations, probes and design changes of one Apalache-typed module.
func runInductive(r *Reporter, module string, vs []indVariant) {
	src, err := os.ReadFile("/verif/spec/" + module + ".tla")
	must(err)
	bad := 0
	for i, v := range vs {
		text := string(src)
		for _, e := range v.edits {
			if !strings.Contains(text, e[0]) {
				inconclusive("%s: edit target not found in spec/%s.tla: %q", propID, module, e[0])
			}
			text = strings.Replace(text, e[0], e[1], 1)
		}
		dir := newWorkDir(fmt.Sprintf("%s%d", module, i))
		must(os.WriteFile(filepath.Join(dir, module+".tla"), []byte(text), 0o644))
		args := []string{"--init=" + v.init, "--inv=" + v.inv, "--length=" + v.length}
		if v.next != "" {
			args = append(args, "--next="+v.next)
		}
		held, _, err := apalache(dir, module+".tla", args...)
		os.RemoveAll(dir)
		if err != nil {
			inconclusive("%s %s: %v", propID, v.name, err)
		}
		res := "refuted"
		if held {
			res = "holds"
		}
		mark := "as expected"
		if held != v.wantHold {
			mark = "UNEXPECTED"
			bad++
		}
		fmt.Printf("  %-70s %s (%s)\n", v.name+":", res, mark)
		r.Eval(v.name, true)
	}
	if bad > 0 {
		inconclusive("%s: %d obligations did not come out as expected", propID, bad)
	}
}

func init() {
	register("busind", func(r *Reporter) {
		runInductive(r, "BusInd", []indVariant{
			{"Init => IndInv", nil, "Init", "IndInv", "0", true, ""},
			{"IndInv /\\ Next => IndInv'", nil, "IndInit", "IndInv", "1", true, ""},
			{"probe: IndInit admits a full bus", nil, "IndInit", "ProbeNotFull", "0", false, ""},
			{"probe: an item reaches the output side", nil, "Init", "ProbeNoMove", "3", false, ""},
			{"design change: Add without the capacity guard", [][2]string{{"/\\ Len(buffer) # BufferLen /\\ ctr < MaxTag", "/\\ ctr < MaxTag"}}, "IndInit", "IndInv", "1", false, ""},
			{"design change: Connect moves items in the cycle they were added", [][2]string{
				{"i <= n => buffer[i].avail <= cycle", "i <= n => buffer[i].avail <= cycle + 1"},
				{"buffer[n + 1].avail > cycle)", "buffer[n + 1].avail > cycle + 1)"}}, "IndInit", "IndInv", "1", false, ""},
			{"design change: Connect puts moved items before the visible ones", [][2]string{
				{"queue' = queue \\o FunAsSeq([i \\in 1 .. BufferLen |-> [t |-> buffer[i].t, at |-> buffer[i].at, rev |-> buffer[i].rev]], n, BufferLen)",
					"queue' = FunAsSeq([i \\in 1 .. BufferLen |-> [t |-> buffer[i].t, at |-> buffer[i].at, rev |-> buffer[i].rev]], n, BufferLen) \\o queue"}}, "IndInit", "IndInv", "1", false, ""},
			// undisciplined producers (Add without CanAdd, Revert): at most once, and a cycle later for added items
			{"undisciplined: Init => IndInvU", nil, "Init", "IndInvU", "0", true, "NextU"},
			{"undisciplined: IndInvU /\\ NextU => IndInvU'", nil, "IndInitU", "IndInvU", "1", true, "NextU"},
			{"probe: a reverted item becomes visible in the same cycle", nil, "Init", "ProbeNoRevVisible", "2", false, "NextU"},
			{"design change (undisciplined): Connect moves items in the cycle they were added", [][2]string{
				{"i <= n => buffer[i].avail <= cycle\n            /\\ (n = Min(Len(buffer), QueueLen - Len(queue)) \\/ buffer[n + 1].avail > cycle)\n            /\\ queue' = queue \\o FunAsSeq([i \\in 1 .. BufferLen + 2",
					"i <= n => buffer[i].avail <= cycle + 1\n            /\\ (n = Min(Len(buffer), QueueLen - Len(queue)) \\/ buffer[n + 1].avail > cycle + 1)\n            /\\ queue' = queue \\o FunAsSeq([i \\in 1 .. BufferLen + 2"}}, "IndInitU", "IndInvU", "1", false, "NextU"},
			// comp.Queue: insertion order survives pushes and removal during iteration
			{"queue: Init => IndInvQ", nil, "Init", "IndInvQ", "0", true, "NextQ"},
			{"queue: IndInvQ /\\ NextQ => IndInvQ'", nil, "IndInitQ", "IndInvQ", "1", true, "NextQ"},
			{"probe: IndInitQ admits two queued items", nil, "IndInitQ", "ProbeQShort", "0", false, "NextQ"},
			{"design change (queue): removal swaps the last item into the hole", [][2]string{
				{"queue' = SelectSeq(queue, Keep)", "queue' = IF Len(queue) >= 2 /\\ ~Keep(queue[1]) THEN SubSeq(queue, Len(queue), Len(queue)) \\o SubSeq(queue, 2, Len(queue) - 1) ELSE SelectSeq(queue, Keep)"}}, "IndInitQ", "IndInvQ", "1", false, "NextQ"},
		})
	})
	// lruind: the key-value LRU design of spec/KVLru.tla (C13, second half): NoDup /\ WithinCap inductive,
	// and every step touches/displaces as an LRU must (spec/KVLruInd.tla).
	register("lruind", func(r *Reporter) {
		put := "THEN Tail(order) \\o <<k>> ELSE Refresh(k)"
		runInductive(r, "KVLruInd", []indVariant{
			{"Init => IndInv /\\ Step", nil, "Init", "IndStep", "0", true, ""},
			{"IndInv /\\ Next => (IndInv /\\ Step)'", nil, "IndInit", "IndStep", "1", true, ""},
			{"probe: IndInit admits a full cache", nil, "IndInit", "ProbeNotFull", "0", false, ""},
			{"probe: a step displaces a key", nil, "IndInit", "ProbeNoDisplace", "1", false, ""},
			{"design change: Put displaces the most recently used key", [][2]string{{put, "THEN SubSeq(order, 1, Cap - 1) \\o <<k>> ELSE Refresh(k)"}}, "IndInit", "IndStep", "1", false, ""},
			{"design change: Get does not refresh the key", [][2]string{{"order' = IF Has(k) THEN Refresh(k) ELSE order", "order' = order"}}, "IndInit", "IndStep", "1", false, ""},
			{"design change: Put of a present key appends without removing", [][2]string{{put, "THEN Tail(order) \\o <<k>> ELSE order \\o <<k>>"}}, "IndInit", "IndStep", "1", false, ""},
		})
	})
	// lcind: the line cache design of spec/LineCache.tla (C13, first half) with line contents abstracted
	// to versions (spec/LineCacheInd.tla).
	register("lcind", func(r *Reporter) {
		runInductive(r, "LineCacheInd", []indVariant{
			{"Init => IndInv /\\ Step", nil, "Init", "IndStep", "0", true, ""},
			{"IndInv /\\ Next => (IndInv /\\ Step)'", nil, "IndInit", "IndStep", "1", true, ""},
			{"probe: IndInit admits a pending victim", nil, "IndInit", "ProbeNotOver", "0", false, ""},
			{"probe: a Push displaces a line", nil, "IndInit", "ProbeNoDisplace", "1", false, ""},
			{"design change: Push displaces the most recently used line", [][2]string{{"\\o SubSeq(lines, 1, NumLines - 1)", "\\o SubSeq(lines, 2, NumLines)"}}, "IndInit", "IndStep", "1", false, ""},
			{"design change: Write leaves the resident copy stale", [][2]string{{"lines' = [lines EXCEPT ![i] = [base |-> b, ver |-> ctr]]", "lines' = lines"}}, "IndInit", "IndStep", "1", false, ""},
			{"design change: a hit does not make the line most recent", [][2]string{{"lines' = <<lines[i]>> \\o Without(b)", "lines' = lines"}}, "IndInit", "IndStep", "1", false, ""},
		})
	})
}
