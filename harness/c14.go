package main

import (
	"container/list"
	"encoding/json"
	"fmt"

	"github.com/teivah/majorana/proc/comp"
)

type busQ struct {
	PendingRead int  `json:"pendingRead"`
	CanGet      bool `json:"canGet"`
	CanAdd      bool `json:"canAdd"`
	Remaining   int  `json:"remaining"`
	Empty       bool `json:"empty"`
	Ex1         bool `json:"ex1"`
	Ex2         bool `json:"ex2"`
}

type busStep struct {
	Op    string          `json:"op"`
	Arg   int             `json:"arg"`
	Cycle int             `json:"cycle"`
	Ok    bool            `json:"ok"`
	Ret   json.RawMessage `json:"ret"`
	Q     busQ            `json:"q"`
}

type busHist struct {
	Kind  string    `json:"kind"`
	Caps  []int     `json:"caps"`
	Hist  []busStep `json:"hist"`
	Final struct {
		Buffer []int `json:"buffer"`
		Queue  []int `json:"queue"`
		Cycle  int   `json:"cycle"`
	} `json:"final"`
}

func (s busStep) retInt() int {
	var v int
	_ = json.Unmarshal(s.Ret, &v)
	return v
}
func (s busStep) retInts() []int {
	var v []int
	_ = json.Unmarshal(s.Ret, &v)
	return v
}

func p1(t int) bool { return t%2 == 0 }
func p2(t int) bool { return t%3 == 0 }
func predOf(p int) func(int) bool {
	if p == 1 {
		return p1
	}
	return p2
}

func replayBus(h busHist) (cat, detail string, step int) {
	defer func() {
		if p := recover(); p != nil {
			cat, detail = "panic", fmt.Sprint(p)
		}
	}()
	switch h.Kind {
	case "buffered":
		b := comp.NewBufferedBus[int](h.Caps[0], h.Caps[1])
		if b.InLength() != h.Caps[0] || b.OutLength() != h.Caps[1] {
			return "caps", "InLength/OutLength do not report the configured capacities", 0
		}
		cycle := 1
		for k, s := range h.Hist {
			switch s.Op {
			case "Add":
				b.Add(s.Arg, cycle)
			case "Tick":
				cycle++
			case "Connect":
				before := b.PendingRead()
				b.Connect(cycle)
				if moved := b.PendingRead() - before; moved != s.retInt() {
					return "connect", fmt.Sprintf("Connect(%d) made %d items visible, want %d", cycle, moved, s.retInt()), k
				}
			case "Get":
				v, ok := b.Get()
				if ok != s.Ok || (ok && v != s.retInt()) {
					return "get", fmt.Sprintf("Get() = (%d,%v), want (%d,%v)", v, ok, s.retInt(), s.Ok), k
				}
			case "Pick":
				v, ok := b.Pick(predOf(s.Arg))
				if ok != s.Ok || (ok && v != s.retInt()) {
					return "pick", fmt.Sprintf("Pick(p%d) = (%d,%v), want (%d,%v)", s.Arg, v, ok, s.retInt(), s.Ok), k
				}
			case "Revert":
				b.Revert(s.Arg, cycle)
			case "DeleteLast":
				b.DeleteLast()
			case "Clean":
				b.Clean()
			}
			if cycle != s.Cycle {
				return "spec", "cycle bookkeeping differs", k
			}
			got := busQ{b.PendingRead(), b.CanGet(), b.CanAdd(), b.RemainingToAdd(), b.IsEmpty(), b.Exists(p1), b.Exists(p2)}
			if got != s.Q {
				return "query", fmt.Sprintf("after %s: queries %+v, want %+v", s.Op, got, s.Q), k
			}
		}
		// drain: the remaining items must come out in order: visible ones first, then the input side
		want := append(append([]int{}, h.Final.Queue...), h.Final.Buffer...)
		var got []int
		c := cycle + 2
		for guard := 0; guard < 4*len(want)+8 && !b.IsEmpty(); guard++ {
			b.Connect(c)
			for {
				v, ok := b.Get()
				if !ok {
					break
				}
				got = append(got, v)
			}
			c++
		}
		if fmt.Sprint(got) != fmt.Sprint(want) {
			return "drain", fmt.Sprintf("remaining items are delivered as %v, want %v", got, want), len(h.Hist)
		}
	case "simple":
		b := &comp.SimpleBus[int]{}
		for k, s := range h.Hist {
			switch s.Op {
			case "Add":
				b.Add(s.Arg)
			case "Get":
				v, ok := b.Get()
				if ok != s.Ok || (ok && v != s.retInt()) {
					return "sget", fmt.Sprintf("SimpleBus.Get() = (%d,%v), want (%d,%v)", v, ok, s.retInt(), s.Ok), k
				}
			case "Clean":
				b.Clean()
			case "Flush":
				b.Flush()
			case "Query":
				if b.CanAdd() != s.Ok || b.IsEmpty() != (s.retInt() == 1) {
					return "squery", fmt.Sprintf("CanAdd=%v IsEmpty=%v, want %v %v", b.CanAdd(), b.IsEmpty(), s.Ok, s.retInt() == 1), k
				}
			}
		}
		// drain: pending then current
		var got []int
		for i := 0; i < 3; i++ {
			if v, ok := b.Get(); ok {
				got = append(got, v)
			}
		}
		want := append(append([]int{}, h.Final.Queue...), h.Final.Buffer...)
		if fmt.Sprint(got) != fmt.Sprint(want) {
			return "sdrain", fmt.Sprintf("remaining items are delivered as %v, want %v", got, want), len(h.Hist)
		}
	case "queue":
		q := comp.NewQueue[int](h.Caps[0])
		for k, s := range h.Hist {
			switch s.Op {
			case "Push":
				q.Push(s.Arg)
				if q.Length() != s.retInt() || q.IsFull() != s.Ok {
					return "qpush", fmt.Sprintf("after Push: Length=%d IsFull=%v, want %d %v", q.Length(), q.IsFull(), s.retInt(), s.Ok), k
				}
			case "IterRemove":
				var visited []int
				var elems []*list.Element
				for e := range q.Iterator() {
					elems = append(elems, e)
					v := q.Value(e)
					visited = append(visited, v)
					if predOf(s.Arg)(v) {
						q.Remove(e)
					}
				}
				if fmt.Sprint(visited) != fmt.Sprint(s.retInts()) && !(len(visited) == 0 && len(s.retInts()) == 0) {
					return "qiter", fmt.Sprintf("iteration visits %v, want %v", visited, s.retInts()), k
				}
			}
		}
		var rest []int
		for e := range q.Iterator() {
			rest = append(rest, q.Value(e))
		}
		if fmt.Sprint(rest) != fmt.Sprint(h.Final.Buffer) && !(len(rest) == 0 && len(h.Final.Buffer) == 0) {
			return "qfinal", fmt.Sprintf("queue holds %v, want %v", rest, h.Final.Buffer), len(h.Hist)
		}
	case "broadcast":
		b := comp.NewBroadcast[int](h.Caps[0])
		for k, s := range h.Hist {
			switch s.Op {
			case "Notify":
				b.Notify(s.Arg)
			case "Read":
				id, p := s.Arg/10-1, s.Arg%10
				evs := b.Read(id)
				var got []int
				for _, e := range evs {
					got = append(got, e.Data)
				}
				if fmt.Sprint(got) != fmt.Sprint(s.retInts()) && !(len(got) == 0 && len(s.retInts()) == 0) {
					return "bcread", fmt.Sprintf("listener %d reads %v, want %v", id, got, s.retInts()), k
				}
				for _, e := range evs {
					if predOf(p)(e.Data) {
						e.Commit()
					}
				}
			}
		}
	}
	return "", "", 0
}

func init() {
	register("C14", func(r *Reporter) {
		r.Level = "model_checking"
		r.Cov["rule"] = "TLC enumerates every history of length K of spec/Bus.tla for each component (BufferedBus with capacities (1,1) (2,2) (1,3) (3,1) (4,4), disciplined and arbitrary producers; SimpleBus; Queue; Broadcast), checks the C14 clauses (exactly-once, FIFO, one-cycle latency, capacity for disciplined producers, Clean empties, Revert first) as invariants on the model, and simulates long histories; every history is replayed on a fresh object comparing each return value and all query methods after every call and draining the remaining items at the end. Distinct by op sequence; non-trivial = at least one item added"
		type run struct {
			consts   string
			simulate string
			depth    int
			invs     string
		}
		binv := "Emit ExactlyOnce FifoWhenDisciplined OneCycleLater WithinCapacity CleanEmpties RevertFirst"
		var runs []run
		caps := [][2]int{{1, 1}, {2, 2}, {1, 3}, {3, 1}, {4, 4}}
		kb, kd := 4, 5
		if tier == "thorough" {
			kb, kd = 5, 6
		}
		for _, c := range caps {
			runs = append(runs, run{fmt.Sprintf(" Kind = \"buffered\"\n QueueLen = %d\n BufferLen = %d\n K = %d\n Disciplined = FALSE\n Sample = 0\n", c[0], c[1], kb), "", 0, binv})
			runs = append(runs, run{fmt.Sprintf(" Kind = \"buffered\"\n QueueLen = %d\n BufferLen = %d\n K = %d\n Disciplined = TRUE\n Sample = 0\n", c[0], c[1], kd), "", 0, binv})
		}
		nsim := "num=150"
		if tier == "thorough" {
			nsim = "num=2000"
		}
		runs = append(runs,
			run{" Kind = \"buffered\"\n QueueLen = 4\n BufferLen = 4\n K = 80\n Disciplined = FALSE\n Sample = 0\n", nsim, 81, binv},
			run{" Kind = \"buffered\"\n QueueLen = 3\n BufferLen = 2\n K = 80\n Disciplined = TRUE\n Sample = 0\n", nsim, 81, binv},
			run{fmt.Sprintf(" Kind = \"simple\"\n QueueLen = 1\n BufferLen = 1\n K = %d\n Disciplined = FALSE\n Sample = 0\n", kb+3), "", 0, "Emit ExactlyOnce"},
			run{fmt.Sprintf(" Kind = \"queue\"\n QueueLen = 3\n BufferLen = 1\n K = %d\n Disciplined = FALSE\n Sample = 0\n", kb+3), "", 0, "Emit"},
			run{fmt.Sprintf(" Kind = \"broadcast\"\n QueueLen = 2\n BufferLen = 1\n K = %d\n Disciplined = FALSE\n Sample = 0\n", kb+1), "", 0, "Emit"},
		)
		for i, ru := range runs {
			cfg := "INIT Init\nNEXT Next\nINVARIANTS " + ru.invs + "\nCONSTANTS\n" + ru.consts
			ch := make(chan busHist, 256)
			done := make(chan struct{})
			go func() {
				parallel(ch, 8, func(h busHist) {
					key := h.Kind + fmt.Sprint(h.Caps)
					added := false
					var ops []string
					for _, s := range h.Hist {
						key += fmt.Sprintf("%s%d,", s.Op, s.Arg)
						if s.Op == "Add" || s.Op == "Push" || s.Op == "Notify" {
							added = true
						}
						if len(ops) < 14 {
							ops = append(ops, fmt.Sprintf("%s(%d)->%v,%s", s.Op, s.Arg, s.Ok, s.Ret))
						}
					}
					r.Eval(hashKey(key), added)
					if added {
						r.Sample(map[string]any{"component": h.Kind, "capacities": h.Caps, "history": ops})
					}
					if cat, detail, step := replayBus(h); cat != "" {
						tag := "bus:" + h.Kind + ":" + cat
						what := fmt.Sprintf("%s %v step %d: %s", h.Kind, h.Caps, step, detail)
						if id := matchFinding("C14", []string{tag}, nil, cat); id != "" {
							r.Known(id, what)
							return
						}
						r.ViolateMin(tag, len(h.Hist)*100+step, what, func() any { return h })
					}
				})
				close(done)
			}()
			st, err := RunTLC(TLCOpts{Module: "Bus", Cfg: cfg, Simulate: ru.simulate, Depth: ru.depth, Seed: seed*100 + int64(i)}, func(raw []byte) {
				var h busHist
				if err := json.Unmarshal(raw, &h); err != nil {
					inconclusive("bad bus history: %v: %s", err, raw)
				}
				ch <- h
			})
			close(ch)
			<-done
			if err != nil {
				inconclusive("TLC Bus: %v", err)
			}
			if st.Violated != "" {
				inconclusive("the Bus model violates its own clause %s: %s", st.Violated, tail(st.Output, 25))
			}
			r.addTLC(st)
			r.addTraces(st.Lines)
		}
	})
}
