package main

import (
	"crypto/sha256"
	"encoding/json"
	"fmt"
	"hash/fnv"
	"os"
	"os/exec"
	"path/filepath"
	"sort"
	"strings"
	"sync"

	"github.com/teivah/majorana/risc"
)

func famRunOf(fam string, size string) famRun {
	return famRun{Module: "Families", Consts: fmt.Sprintf(" Family = \"%s\"\n Size = \"%s\"\n", fam, size)}
}

func sizeForTier() string {
	if tier == "thorough" {
		return "large"
	}
	return "small"
}

func (c *ProgCase) extraBool(k string) bool {
	var m map[string]any
	_ = json.Unmarshal(c.Extra, &m)
	b, _ := m[k].(bool)
	return b
}

func cfgsFrom(level int) func(*ProgCase) []Config {
	cs := ConfigsFrom(level)
	if tier == "thorough" {
		for _, a := range AsymConfigs() {
			if a.Level() >= level {
				cs = append(cs, a)
			}
		}
	}
	return func(*ProgCase) []Config { return cs }
}

// focusJudge: a failing observation is in scope when it deviates inside the
// focus set of the case, or the run failed (panic / hang / error).
func focusJudge(c *ProgCase, o Obs) (bool, string) {
	if o.Res.Failed() {
		return true, o.Describe()
	}
	f := o.InFocus(c)
	if len(f) == 0 {
		return false, ""
	}
	ds := make([]string, 0, len(f))
	for _, d := range f {
		ds = append(ds, d.String())
	}
	return true, strings.Join(ds, "; ")
}

func init() {
	// ------------------------------------------------------------------ C03
	register("C03", func(r *Reporter) {
		r.Cov["rule"] = "TLC enumerates the Shadow family of spec/Families.tla (fast/slow condition producer x 10 branch and jump kinds x every shadow of 1..2 instructions over register writes, stores, loads and jal x both branch outcomes by data); plus the Shadow2 family (shadow stores to a line that is already Modified in an L1, with 0..6 independent instructions varying the dispatch alignment; a shadow jump whose target lies beyond the branch target) and the Call family (a leaf function called from 2..3 sites returning through jalr, with an instruction after the jalr that is never on the path); each case runs on MVP-4..8 x parallelism 1..4; the focus set (registers and bytes the shadow would write) must hold the sequential values and the run must not fail. Non-trivial = the branch is taken (the shadow is on the wrong path)"
		runFamily(r, "C03", []famRun{famRunOf("Shadow", sizeForTier()), famRunOf("Call", sizeForTier()), famRunOf("Shadow2", "small"), famRunOf("FarBack", "small")}, cfgsFrom(4),
			func(c *ProgCase) bool { return c.extraBool("taken") },
			func(c *ProgCase, o Obs) (bool, string) {
				if !c.extraBool("taken") {
					return false, ""
				}
				return focusJudge(c, o)
			})
	})
	// ------------------------------------------------------------------ C04
	register("C04", func(r *Reporter) {
		r.Cov["rule"] = "TLC enumerates the RegDep family (all sequences of up to 3 (quick) / 4 (thorough) instructions over chains, fans, WAW and WAR pairs on three registers with slow load producers); each runs on MVP-4..8 x parallelism 1..4 (+ asymmetric EU/WU counts in thorough); every register must hold the sequential value. Non-trivial = at least two instructions touch a common register"
		runFamily(r, "C04", []famRun{famRunOf("RegDep", sizeForTier())}, cfgsFrom(4),
			func(c *ProgCase) bool { return c.Exp.N >= 3 },
			func(c *ProgCase, o Obs) (bool, string) {
				if o.Res.Failed() {
					return true, o.Describe()
				}
				for _, d := range o.Diffs {
					if d.Kind == "reg" {
						return true, o.Describe()
					}
				}
				return false, ""
			})
	})
	// ------------------------------------------------------------------ C05
	register("C05", func(r *Reporter) {
		r.Cov["rule"] = "TLC enumerates the MemWalk family (counted load/store/read-modify-write loops x byte/half/word x strides x counts x first offsets over an 8 KB memory, followed by a re-reading loop) so that more lines than every cache holds are touched and dirty lines are evicted; plus the Unroll family (straight-line walks over 17-18 lines that evict and re-access the first line without any pipeline flush), the repository programs (Repo) and the LineFill family (two loads of one cold line at different offsets, then a dependent store that changes the line); each case runs on MVP-3..8 x parallelism 1..4; the sum of the re-read values and the whole final memory must equal the sequential ones. Non-trivial = the walk touches more than 16 lines"
		runFamily(r, "C05", []famRun{famRunOf("MemWalk", sizeForTier()), famRunOf("LineFill", sizeForTier()), famRunOf("Repo", sizeForTier()), famRunOf("Unroll", "small")}, cfgsFrom(3),
			func(c *ProgCase) bool { return c.Exp.N > 100 || c.Fam == "LineFill" },
			func(c *ProgCase, o Obs) (bool, string) { return true, o.Describe() })
		rigFinalMemory(r)
	})
	// ------------------------------------------------------------------ C09
	register("C09", func(r *Reporter) {
		r.Cov["rule"] = "TLC enumerates the Tail family (every tail of 1..2 (quick) / 3 (thorough) instructions over load miss/hit, store miss/hit, dependent ALU chain, mul x exit by ret or by running past the end x warm/cold line) and the Tail2 family (stores immediately before ret to a line owned Modified by a busy core, 0..10 fillers); each runs on MVP-4..8 x parallelism 1..4; the registers and bytes the tail writes must hold the sequential values. All cases are non-trivial"
		runFamily(r, "C09", []famRun{famRunOf("Tail", sizeForTier()), famRunOf("Tail2", "small"), famRunOf("EndAt", "small")}, cfgsFrom(4), nil, focusJudge)
	})
	// ------------------------------------------------------------------ C10
	register("C10", func(r *Reporter) {
		r.Cov["rule"] = "TLC enumerates the MemDep family (store->load, load->store, store->store pairs on overlapping byte/half/word, distance 1..3 (quick) / 4 (thorough), independent address registers holding the same address, three fillers, line warm or cold); each runs on MVP-4..8 x parallelism 1..4; the destination of the load and the 8 bytes around the conflicting addresses must hold the sequential values. All cases are non-trivial"
		runFamily(r, "C10", []famRun{famRunOf("MemDep", sizeForTier()), famRunOf("LineFill", sizeForTier())}, cfgsFrom(4), nil, focusJudge)
	})
	// ------------------------------------------------------------------ C07
	register("C07", func(r *Reporter) {
		r.Cov["rule"] = "all program families (General, Shadow, RegDep, Tail, MemDep, MemWalk) plus the Err family (division/remainder by zero and undefined labels at depth 0..3) on all 33 configurations; plus the cache-controller rig schedules of C06 (pairs, triples, evictions, injected flushes) on MVP-7.0/7.1/8; verdict = the run exceeds its tick budget 8*309*(n+160+32p) (n = sequential instruction count), panics, blocks, or (Err) does not return an error value. Non-trivial = every case"
		fams := []famRun{famRunOf("Err", sizeForTier()), famRunOf("Shadow", "small"), famRunOf("Tail", "small"), famRunOf("MemDep", "small"), famRunOf("RegDep", "small"), famRunOf("Call", "small"), famRunOf("LineFill", "small"), famRunOf("Repo", "small"), famRunOf("Unroll", "small"), famRunOf("FarBack", "small"), famRunOf("EndAt", "small")}
		gr := generalRuns()
		fams = append(fams, gr[0], gr[len(gr)-1])
		if tier == "thorough" {
			fams = append(fams, famRunOf("MemWalk", "small"))
		}
		rigLiveness(r)
		runFamily(r, "C07", fams, allCfgs, nil, func(c *ProgCase, o Obs) (bool, string) {
			if c.Exp.Status == "err" {
				if o.Res.Hang || o.Res.Blocked || o.Res.Panic != "" {
					return true, "defined error expected, got " + o.Res.Outcome()
				}
				if o.Res.Err == "" {
					return true, "defined error expected, the run returned a nil error"
				}
				return false, ""
			}
			if o.Res.Hang || o.Res.Blocked || o.Res.Panic != "" || o.Res.Err != "" {
				return true, o.Res.Outcome()
			}
			return false, ""
		})
	})
	// ------------------------------------------------------------------ C12
	register("C12", func(r *Reporter) {
		r.Cov["rule"] = "General programs (exhaustive up to the bound + simulated) and the Timing family; on MVP-1 the returned cycle count must equal the latency ledger of the specification (RV32!Cyc1 summed over the executed instructions), MVP-2 must not be slower than MVP-1, every variant must return a positive count >= ceil(n / issue width), and runs of one program text with equal executed path and equal accessed addresses but different operand values / memory images must take equal cycles on every configuration (all families, the Timing family is built for this). Beyond the property the specification has exact models: the instruction-window ledger of MVP-2 (Cyc2), the LRU-cache ledger of MVP-3 (Cyc3) and the cycle-accurate pipeline model spec/Mvp4 for MVP-4 and MVP-5; every run is compared with them and a difference is reported as SPEC-DRIFT (coverage keys *_cycle_model_drift), not as a violation; the Misaligned family (lw/lh/sw/sh at odd offsets inside one line) is run on MVP-1..3 only. Non-trivial = at least 2 executed instructions"
		var mu sync.Mutex
		groups := map[string]map[string]map[int]string{} // program text + path + addresses -> config -> cycles -> one input
		groupTags := map[string][]string{}
		members := map[string]int{}
		modelCmp, drift, driftEx := map[string]int{}, map[string]int{}, map[string][]string{}
		gr := generalRuns()
		fams := []famRun{famRunOf("Timing", sizeForTier()), gr[0], gr[1], gr[len(gr)-1], famRunOf("MemWalk", "small"), famRunOf("LineFill", "small"), famRunOf("Repo", sizeForTier()), famRunOf("Misaligned", "small"), famRunOf("FarChain", "small"), famRunOf("FarBack", "small"), famRunOf("EndAt", "small")}
		seqOnly := []Config{{Variant: "mvp1", Par: 1}, {Variant: "mvp2", Par: 1}, {Variant: "mvp3", Par: 1}}
		cfgsFor := func(c *ProgCase) []Config {
			if c.Fam == "MemWalk" || c.Fam == "Misaligned" { // long walks / accesses that are not naturally aligned: only the variants with an exact ledger (cache evictions in MVP-3)
				return seqOnly
			}
			return AllConfigs()
		}
		runFamilyAll(r, "C12", fams, cfgsFor, func(c *ProgCase) bool { return c.Exp.N >= 2 }, func(c *ProgCase, o Obs) (bool, string) {
			if o.Symptom() != "" || c.Exp.Status == "err" {
				return false, "" // functional failures belong to C01/C07
			}
			n := c.Exp.N
			cyc := o.Res.Cycles
			if cyc <= 0 {
				return true, fmt.Sprintf("returned cycle count %d is not positive", cyc)
			}
			w := o.Cfg.Width()
			if lb := (n + w - 1) / w; cyc < lb {
				return true, fmt.Sprintf("cycles %d < %d executed instructions / issue width %d", cyc, n, w)
			}
			if o.Cfg.Variant == "mvp1" && cyc != c.Exp.Cyc1 {
				return true, fmt.Sprintf("MVP-1 cycles %d, latency model %d", cyc, c.Exp.Cyc1)
			}
			if o.Cfg.Variant == "mvp2" && cyc > c.Exp.Cyc1 {
				return true, fmt.Sprintf("MVP-2 cycles %d > MVP-1 latency model %d", cyc, c.Exp.Cyc1)
			}
			// Beyond the property: exact ledgers for MVP-2 and MVP-3, cycle-accurate pipeline model for
			// MVP-4/5.  A mismatch is a drift between the specification and the code, not a violation of
			// C12 (which asks MVP-2 <= MVP-1, the bounds and value independence).
			model := -1
			switch o.Cfg.Variant {
			case "mvp2":
				model = c.Exp.Cyc2
			case "mvp3":
				model = c.Exp.Cyc3
			case "mvp4":
				model = c.Exp.Cyc4
			case "mvp5":
				model = c.Exp.Cyc5
			}
			mu.Lock()
			if model > 0 {
				modelCmp[o.Cfg.Variant]++
				if cyc != model {
					drift[o.Cfg.Variant]++
					if len(driftEx[o.Cfg.Variant]) < 3 {
						driftEx[o.Cfg.Variant] = append(driftEx[o.Cfg.Variant], fmt.Sprintf("%s {%s}: %d cycles, model %d", oneLine(c.Prog), fmtRegs(c.Regs0), cyc, model))
					}
				}
			}
			// value independence: same text, same executed path, same accessed addresses => same cycles
			k := oneLine(c.Prog) + fmt.Sprint(" [path ", c.Exp.Pcs, " addresses ", c.Exp.Addrs, "]")
			if groups[k] == nil {
				groups[k] = map[string]map[int]string{}
				groupTags[k] = c.Tags
			}
			if o.Cfg.Variant == "mvp1" {
				members[k]++
			}
			cs := o.Cfg.String()
			if groups[k][cs] == nil {
				groups[k][cs] = map[int]string{}
			}
			if _, seen := groups[k][cs][cyc]; !seen {
				groups[k][cs][cyc] = fmtRegs(c.Regs0) + " image " + c.Img
			}
			mu.Unlock()
			return false, ""
		})
		cfgByName := map[string]Config{}
		for _, cc := range AllConfigs() {
			cfgByName[cc.String()] = cc
		}
		for prog, byCfg := range groups {
			for cfg, byCyc := range byCfg {
				if len(byCyc) > 1 {
					var parts []string
					for cyc, regs := range byCyc {
						parts = append(parts, fmt.Sprintf("%d cycles with {%s}", cyc, regs))
					}
					sort.Strings(parts)
					what := fmt.Sprintf("%s on %s: cycle count depends on operand values: %s", prog, cfg, strings.Join(parts, " vs "))
					cc := cfgByName[cfg]
					if id := matchFinding("C12", append([]string{"timing_value_dependent"}, groupTags[prog]...), &cc, "cycles"); id != "" {
						r.Known(id, what)
						continue
					}
					r.ViolateMin("Timing|"+strings.Split(cfg, "/")[0], len(prog), what, func() any { return map[string]any{"program": prog, "config": cfg, "cycles": parts} })
				}
			}
		}
		multi := 0
		for _, n := range members {
			if n > 1 {
				multi++
			}
		}
		r.Cov["value_independence_groups_with_several_inputs"] = multi
		for _, v := range []string{"mvp2", "mvp3", "mvp4", "mvp5"} {
			r.Cov[v+"_cycle_model_comparisons"] = modelCmp[v]
			r.Cov[v+"_cycle_model_drift"] = drift[v]
			if drift[v] > 0 {
				fmt.Printf("SPEC-DRIFT: property=C12 %s: %d of %d runs differ from the specification's cycle model (not a C12 violation by itself), e.g. %s\n", v, drift[v], modelCmp[v], strings.Join(driftEx[v], " | "))
			}
		}
	})
	// ------------------------------------------------------------------ C08
	register("C08", func(r *Reporter) {
		r.Cov["rule"] = "RegDep, MemDep, Shadow, Tail and General cases; each case is run 4 times on fresh machines of every configuration (two of them concurrently with other machines in the same process), once with a parsed Application previously run on a different variant, and a sample of the (case, configuration) pairs is repeated in two other processes (GOMAXPROCS=1 and 16, hence other map-iteration seeds); the (cycles, registers, memory) triples must be identical. The specification's role is input selection; non-trivial = at least 3 executed instructions"
		fams := []famRun{famRunOf("RegDep", "small"), famRunOf("MemDep", "small"), famRunOf("Tail", "small"), famRunOf("Shadow", "small"), famRunOf("Repo", "small")}
		if tier == "thorough" {
			fams = []famRun{famRunOf("RegDep", "small"), famRunOf("MemDep", "large"), famRunOf("Tail", "large"), famRunOf("Shadow", "large"), famRunOf("Repo", "large"), generalRuns()[1]} // RegDep: the whole small family (the quick tier takes a third of it)
		}
		fams = append(fams, famRunOf("Oob", "small"))
		detRun(r, fams)
		rigDeterminism(r)
	})
}

// runFamilyAll is runFamily but calls judge for every observation (also the agreeing ones).
func runFamilyAll(r *Reporter, prop string, runs []famRun, configs func(c *ProgCase) []Config, nontrivial func(c *ProgCase) bool, judge judgeFn) {
	if sel := os.Getenv("VERIF_RUNS"); sel != "" { // debugging aid: restrict to one TLC run
		var idx int
		fmt.Sscan(sel, &idx)
		if idx < len(runs) {
			runs = runs[idx : idx+1]
		}
	}
	if only := os.Getenv("VERIF_ONLY_VARIANT"); only != "" { // debugging aid
		inner := configs
		configs = func(c *ProgCase) []Config {
			var out []Config
			for _, cfg := range inner(c) {
				if cfg.Variant == only {
					out = append(out, cfg)
				}
			}
			return out
		}
	}
	for _, fr := range runs {
		o := TLCOpts{Module: fr.Module, Cfg: famCfg(fr.Consts), Simulate: fr.Simulate, Depth: fr.Depth, Seed: seed*1000 + fr.SeedOff}
		if prop == "C12" {
			o.Env = map[string]string{"VERIF_CYC4": "1"}
			if tier == "thorough" && fr.Module != "General" {
				o.Env["VERIF_CYC4"] = "2" // the families: runs up to 300 instructions; the simulated General programs stay at 48 (TLC time)
			}
		}
		st := streamCases(r, o, 16, func(c *ProgCase) {
			r.Eval(c.Key(), nontrivial == nil || nontrivial(c))
			r.Sample(map[string]any{"family": c.Fam, "program": oneLine(c.Prog), "regs0": c.Regs0, "expected_cycles_mvp1": c.Exp.Cyc1, "n": c.Exp.N})
			for _, cfg := range configs(c) {
				obs := Observe(c, cfg)
				r.addTraces(1)
				inScope, what := judge(c, obs)
				if !inScope {
					continue
				}
				desc := fmt.Sprintf("%s on %s: %s [%s]", oneLine(c.Prog), cfg, what, strings.Join(c.Tags, ","))
				if os.Getenv("VERIF_VERBOSE") != "" {
					fmt.Println("FAIL", desc)
				}
				if id := matchFinding(prop, c.Tags, &cfg, "cycles"); id != "" {
					r.Known(id, desc)
					continue
				}
				cc, oo := c, obs
				r.ViolateMin(fmt.Sprintf("%s|%s|cycles", c.Fam, cfg.Variant), len(c.Prog)*100+cfg.Par, desc, func() any { return cc.Replay(oo.Cfg, oo) })
			}
		})
		if st.Lines == 0 {
			inconclusive("%s generated no case", fr.Module)
		}
	}
}

// rigFinalMemory (C05 at the level of the cache controllers): the request schedules of the verif rig that
// contain no flush are run on the real controllers of MVP-7.0/7.1/8; after the final export main memory
// must hold, at every address that received exactly one write (or writes from one core only), the value of
// the (last) write - "no dirty data remains only in a cache", including across capacity evictions of L1 and,
// on MVP-8, of the shared L3 (the design model spec/L3.tla predicts how a store is lost there).
func rigFinalMemory(r *Reporter) {
	n, checked := 0, 0
	var mu sync.Mutex
	for _, variant := range []string{"mvp7-0", "mvp7-1", "mvp8-0"} {
		var scheds []rigSchedule
	next:
		for _, s := range rigSchedules(variant) {
			writes := 0
			for _, e := range s.Events {
				if e.Kind == "F" {
					continue next
				}
				if e.Kind == "W" {
					writes++
				}
			}
			if writes > 0 && (len(s.Events) >= 17 || s.Cores >= 3) {
				scheds = append(scheds, s)
			}
		}
		ch := make(chan int, 64)
		go func() {
			for i := range scheds {
				ch <- i
			}
			close(ch)
		}()
		parallel(ch, 16, func(i int) {
			s := scheds[i]
			_, pm, stuck, _, mem, written := runScheduleM(s)
			r.Eval("rigmem|"+hashKey(s.String()), true)
			r.addTraces(1)
			if pm != "" || stuck || mem == nil {
				return // panics and stuck rigs are C07's (rigLiveness) and C06's
			}
			cores := map[int32]map[int]bool{}
			for _, e := range s.Events {
				if e.Kind == "W" {
					if cores[e.Addr] == nil {
						cores[e.Addr] = map[int]bool{}
					}
					cores[e.Addr][e.Core] = true
				}
			}
			var bad []string
			for addr, vals := range written {
				if len(cores[addr]) != 1 {
					continue // writers on several cores: the order is the protocol's choice
				}
				mu.Lock()
				checked++
				mu.Unlock()
				if want := vals[len(vals)-1]; mem[addr] != want {
					bad = append(bad, fmt.Sprintf("memory[%d] = %d, want %d", addr, mem[addr], want))
				}
			}
			if len(bad) == 0 {
				return
			}
			sort.Strings(bad)
			if len(bad) > 4 {
				bad = append(bad[:4], fmt.Sprintf("... %d more", len(bad)-4))
			}
			desc := fmt.Sprintf("rig %s: after the final export %s", s.String(), strings.Join(bad, "; "))
			cfg := Config{Variant: s.Variant, Par: s.Cores}
			var tags []string
			for _, t := range s.Tags {
				tags = append(tags, t+":value")
			}
			if id := matchFinding("C05", tags, &cfg, "value"); id != "" {
				r.KnownOn(id, cfg.String(), desc)
				return
			}
			ss := s
			r.ViolateMin("rigmem|"+s.Variant, len(s.Events)*1000+s.Events[len(s.Events)-1].T, desc, func() any { return ss })
		})
		n += len(scheds)
	}
	r.Cov["rig_schedules_with_final_memory_check"] = n
	r.Cov["rig_written_addresses_checked"] = checked
}

// rigDeterminism: the cache controllers of the multi-core variants driven by the verif rig (the schedules
// of C06: triples on three cores, the eviction warm-ups, sharers with a busy snoop coroutine, one core
// asked for two Modified lines at once) are run three times each; the sequence of distinct snapshots, the
// cycle in which the rig becomes quiet and the outcome must be identical (several same-cycle snoop
// requests are served in a map-iteration order).
func rigDeterminism(r *Reporter) {
	n := 0
	for _, variant := range []string{"mvp7-0", "mvp7-1", "mvp8-0"} {
		var scheds []rigSchedule
		for _, s := range rigSchedules(variant) {
			if s.Cores >= 3 || len(s.Events) >= 17 {
				scheds = append(scheds, s)
			}
		}
		ch := make(chan int, 64)
		go func() {
			for i := range scheds {
				ch <- i
			}
			close(ch)
		}()
		parallel(ch, 16, func(i int) {
			s := scheds[i]
			var keys [3]string
			for k := range keys {
				snaps, pm, stuck, end := runScheduleT(s)
				h := sha256.New()
				for _, sn := range snaps {
					h.Write(sn)
					h.Write([]byte{10})
				}
				keys[k] = fmt.Sprintf("end=%d distinct_snapshots=%d panic=%q stuck=%v state=%x", end, len(snaps), pm, stuck, h.Sum(nil)[:8])
			}
			r.Eval("rigdet|"+hashKey(s.String()), true)
			r.addTraces(3)
			if keys[0] != keys[1] || keys[0] != keys[2] {
				desc := fmt.Sprintf("rig %s: three runs of one request schedule differ: %s | %s | %s", s.String(), keys[0], keys[1], keys[2])
				cfg := Config{Variant: s.Variant, Par: s.Cores}
				if id := matchFinding("C08", append([]string{"det:rig"}, s.Tags...), &cfg, "rig"); id != "" {
					r.Known(id, desc)
					return
				}
				ss := s
				r.ViolateMin("rigdet|"+s.Variant, len(s.Events)*1000+s.Events[len(s.Events)-1].T, desc, func() any { return ss })
			}
		})
		n += len(scheds)
	}
	r.Cov["rig_schedules_run_three_times"] = n
}

func fnv32(s string) uint32 {
	h := fnv.New32a()
	h.Write([]byte(s))
	return h.Sum32()
}

type detKey struct {
	cycles int
	out    string
	regs   string
	mem    string
}

func detOf(res RunResult) detKey {
	return detKey{res.Cycles, res.Outcome(), fmtRegs(res.Regs), fmt.Sprint(res.Mem)}
}

// childJob is one (case, configuration) pair re-run in another process.
type childJob struct {
	Text    string           `json:"text"`
	Variant string           `json:"variant"`
	Par     int              `json:"par"`
	Regs0   map[string]int32 `json:"regs0"`
	Img     string           `json:"img"`
	MemSize int              `json:"memSize"`
	Mem0    map[int]byte     `json:"mem0"`
	N       int              `json:"n"`
	Digest  string           `json:"digest"`
	Desc    string           `json:"desc"`
	Tags    []string         `json:"tags"`
}

func digestOf(k detKey) string { return hashKey(fmt.Sprint(k.cycles), k.out, k.regs, k.mem) }

// childMain (hidden subcommand `childrun <file>`): runs every job of the file in this process
// and prints one digest per line.
func init() {
	register("childrun", func(r *Reporter) {
		b, err := os.ReadFile(os.Args[2])
		if err != nil {
			inconclusive("%v", err)
		}
		var jobs []childJob
		if err := json.Unmarshal(b, &jobs); err != nil {
			inconclusive("%v", err)
		}
		for _, j := range jobs {
			app, err := risc.Parse(j.Text)
			if err != nil {
				fmt.Println("parse-error")
				continue
			}
			in := InitState{Img: j.Img, MemSize: j.MemSize, Regs: j.Regs0, MemInit: j.Mem0}
			fmt.Println("D " + digestOf(detOf(RunApp(Config{Variant: j.Variant, Par: j.Par}, app, in, Budget(j.N, j.Par)))))
		}
		os.Exit(0)
	})
}

// detRun checks determinism and isolation (C08).
func detRun(r *Reporter, fams []famRun) {
	cfgs := AllConfigs()
	var jobs []childJob
	var jmu sync.Mutex
	caseNo := 0
	for _, fr := range fams {
		o := TLCOpts{Module: fr.Module, Cfg: famCfg(fr.Consts), Simulate: fr.Simulate, Depth: fr.Depth, Seed: seed*1000 + fr.SeedOff}
		st := streamCases(r, o, 16, func(c *ProgCase) {
			if c.Exp.Status == "err" {
				return
			}
			if tier == "quick" && c.Fam == "RegDep" && fnv32(c.Key())%3 != 0 {
				return // quick tier: a third of the (large) RegDep family, chosen by a hash of the case
			}
			r.Eval(c.Key(), c.Exp.N >= 3)
			r.Sample(map[string]any{"family": c.Fam, "program": oneLine(c.Prog), "regs0": c.Regs0})
			text := c.Text()
			shared, err := risc.Parse(text) // one Application reused by every configuration in turn
			if err != nil {
				return
			}
			for _, cfg := range cfgs {
				var ks [4]detKey
				var wg sync.WaitGroup
				for i := 0; i < 2; i++ {
					app, _ := risc.Parse(text)
					ks[i] = detOf(RunApp(cfg, app, c.Init(), Budget(c.Exp.N, cfg.Par)))
				}
				for i := 2; i < 4; i++ { // two more, concurrently
					wg.Add(1)
					go func(i int) {
						defer wg.Done()
						app, _ := risc.Parse(text)
						ks[i] = detOf(RunApp(cfg, app, c.Init(), Budget(c.Exp.N, cfg.Par)))
					}(i)
				}
				wg.Wait()
				// history: the shared Application first runs on another (forwarding, renaming) machine
				dirty := Config{Variant: "mvp6-1", Par: 2}
				if cfg.Variant == "mvp6-1" {
					dirty = Config{Variant: "mvp7-0", Par: 2}
				}
				other := c.Init() // ... from a different initial state (the history must not matter)
				other.Regs = map[string]int32{}
				for k, v := range c.Regs0 {
					if k == "a0" || k == "a1" {
						other.Regs[k] = v
					} else {
						other.Regs[k] = v*3 + 1001
					}
				}
				other.Img = "ones"
				_ = RunApp(dirty, shared, other, Budget(c.Exp.N, 2)*4)
				reused := detOf(RunApp(cfg, shared, c.Init(), Budget(c.Exp.N, cfg.Par)))
				r.addTraces(6)
				jmu.Lock()
				caseNo++
				if caseNo%7 == 0 && len(jobs) < 6000 { // a sample of the pairs is repeated in another process
					in := c.Init()
					jobs = append(jobs, childJob{Text: text, Variant: cfg.Variant, Par: cfg.Par, Regs0: c.Regs0, Img: c.Img, MemSize: c.MemSize,
						Mem0: in.MemInit, N: c.Exp.N, Digest: digestOf(ks[0]), Desc: oneLine(c.Prog) + " on " + cfg.String(), Tags: c.Tags})
				}
				jmu.Unlock()
				what := ""
				sym := "value"
				for i := 1; i < 4; i++ {
					if ks[i] != ks[0] {
						what = fmt.Sprintf("repeated runs differ: run 0 = (%d cycles, %s, %s) run %d = (%d cycles, %s, %s)", ks[0].cycles, ks[0].out, ks[0].regs, i, ks[i].cycles, ks[i].out, ks[i].regs)
					}
				}
				if what == "" && reused != ks[0] {
					sym = "reuse"
					what = fmt.Sprintf("a parsed program already run on other machines gives (%d cycles, %s, %s), a fresh parse (%d cycles, %s, %s)", reused.cycles, reused.out, reused.regs, ks[0].cycles, ks[0].out, ks[0].regs)
				}
				if what == "" {
					continue
				}
				desc := fmt.Sprintf("%s on %s: %s [%s]", oneLine(c.Prog), cfg, what, strings.Join(c.Tags, ","))
				tags := append([]string{"det:" + sym}, c.TagsFor(cfg, nil)...)
				if id := matchFinding("C08", tags, &cfg, sym); id != "" {
					r.Known(id, desc)
					continue
				}
				cc, cf := c, cfg
				r.ViolateMin(fmt.Sprintf("%s|%s|%s", c.Fam, cfg.Variant, sym), len(c.Prog)*100+cfg.Par, desc, func() any {
					return cc.Replay(cf, Obs{Cfg: cf, Res: RunResult{Cycles: ks[0].cycles}})
				})
			}
		})
		if st.Lines == 0 {
			inconclusive("%s generated no case", fr.Module)
		}
	}
	// another process (other map-iteration seeds), once with GOMAXPROCS=1 and once with 16
	if len(jobs) == 0 {
		return
	}
	dir := newWorkDir("child")
	jb, _ := json.Marshal(jobs)
	jf := filepath.Join(dir, "jobs.json")
	must(os.WriteFile(jf, jb, 0o644))
	for _, procs := range []string{"1", "16"} {
		cmd := exec.Command(os.Args[0], "childrun", jf)
		cmd.Env = append(os.Environ(), "GOMAXPROCS="+procs)
		out, err := cmd.Output()
		if err != nil {
			inconclusive("child process failed: %v", err)
		}
		var ds []string
		for _, l := range strings.Split(string(out), "\n") {
			if strings.HasPrefix(l, "D ") {
				ds = append(ds, l[2:])
			}
		}
		if len(ds) != len(jobs) {
			inconclusive("child process returned %d results for %d jobs", len(ds), len(jobs))
		}
		r.addTraces(int64(len(jobs)))
		for i, j := range jobs {
			if ds[i] == j.Digest {
				continue
			}
			cfg := Config{Variant: j.Variant, Par: j.Par}
			desc := fmt.Sprintf("%s: another process (GOMAXPROCS=%s) returns a different (cycles, registers, memory) triple [%s]", j.Desc, procs, strings.Join(j.Tags, ","))
			if id := matchFinding("C08", append([]string{"det:process"}, j.Tags...), &cfg, "process"); id != "" {
				r.KnownOn(id, cfg.String(), desc)
				continue
			}
			jj := j
			r.ViolateMin("process|"+j.Variant, len(j.Text), desc, func() any { return jj })
		}
	}
	r.Cov["pairs_repeated_in_other_processes"] = len(jobs)
}
