package main

import (
	"bufio"
	"encoding/json"
	"fmt"
	"os"
	"path/filepath"
	"sort"
	"strings"
	"sync"

	"github.com/teivah/majorana/proc/comp"
	mvp7_0 "github.com/teivah/majorana/proc/mvp7-0"
	mvp7_1 "github.com/teivah/majorana/proc/mvp7-1"
	mvp8_0 "github.com/teivah/majorana/proc/mvp8-0"
	"github.com/teivah/majorana/risc"
)

// Rig is the verif-only cache-controller rig of the three multi-core variants.
type Rig interface {
	StartRead(core int, addr int32)
	StartWrite(core int, addr int32, v int8)
	Flush(core int)
	Cycle()
	Busy(core int) bool
	Quiet() bool
	Snapshot() comp.VerifSnap
	Export()
	Memory() []int8
}

func newRig(variant string, cores, mem int) Rig {
	switch variant {
	case "mvp7-0":
		return mvp7_0.NewVerifRig(cores, mem)
	case "mvp7-1":
		return mvp7_1.NewVerifRig(cores, mem)
	case "mvp8-0":
		return mvp8_0.NewVerifRig(cores, mem)
	}
	panic(variant)
}

// rigEvent is one entry of a rig schedule.
type rigEvent struct {
	T    int    `json:"t"`
	Core int    `json:"core"`
	Kind string `json:"kind"` // R, W, F
	Addr int32  `json:"addr"`
}

type rigSchedule struct {
	Variant string     `json:"variant"`
	Cores   int        `json:"cores"`
	Events  []rigEvent `json:"events"`
	Tags    []string   `json:"tags"`
}

func (s rigSchedule) String() string {
	var parts []string
	for _, e := range s.Events {
		parts = append(parts, fmt.Sprintf("%s%d@%d:%d", e.Kind, e.Core, e.T, e.Addr))
	}
	return fmt.Sprintf("%s/%d %s", s.Variant, s.Cores, strings.Join(parts, " "))
}

// traceWriter collects deduplicated snapshots of many runs into one ndjson file.
type traceWriter struct {
	mu    sync.Mutex
	f     *os.File
	w     *bufio.Writer
	lines int
	runs  []any // run id -> description (schedule or program)
	byRun map[int][2]int
}

func newTraceWriter(path string) *traceWriter {
	f, err := os.Create(path)
	must(err)
	return &traceWriter{f: f, w: bufio.NewWriterSize(f, 1<<20), byRun: map[int][2]int{}}
}

// addRun appends the snapshots of one run and returns its id.
func (t *traceWriter) addRun(desc any, snaps [][]byte) int {
	t.mu.Lock()
	defer t.mu.Unlock()
	id := len(t.runs)
	t.runs = append(t.runs, desc)
	first := t.lines + 1
	for _, s := range snaps {
		// prepend the run id
		fmt.Fprintf(t.w, "{\"run\":%d,%s\n", id, s[1:])
		t.lines++
	}
	t.byRun[id] = [2]int{first, t.lines}
	return id
}

func (t *traceWriter) close() {
	t.w.Flush()
	t.f.Close()
}

// snapRecorder deduplicates consecutive identical snapshots.
type snapRecorder struct {
	last  string
	snaps [][]byte
}

func (r *snapRecorder) add(s comp.VerifSnap) {
	if s.Lines == nil {
		s.Lines = []comp.VerifLine{} // TLC's JSON reader rejects null
	}
	b, _ := json.Marshal(s)
	if string(b) == r.last {
		return
	}
	r.last = string(b)
	r.snaps = append(r.snaps, b)
}

// runSchedule executes one schedule on the rig; returns the snapshots and a panic message if any.
func runSchedule(s rigSchedule) (snaps [][]byte, panicMsg string, stuck bool) {
	snaps, panicMsg, stuck, _ = runScheduleT(s)
	return
}

// runScheduleT also returns the cycle in which the rig became quiet (part of the result C08 compares).
func runScheduleT(s rigSchedule) (snaps [][]byte, panicMsg string, stuck bool, end int) {
	snaps, panicMsg, stuck, end, _, _ = runScheduleM(s)
	return
}

// runScheduleM also returns main memory after the final export and the value each write carried.
func runScheduleM(s rigSchedule) (snaps [][]byte, panicMsg string, stuck bool, end int, mem []int8, written map[int32][]int8) {
	written = map[int32][]int8{}
	rec := &snapRecorder{}
	defer func() {
		if p := recover(); p != nil {
			panicMsg = fmt.Sprint(p)
			snaps = rec.snaps
			end = len(rec.snaps)
		}
	}()
	rig := newRig(s.Variant, s.Cores, 8192)
	evs := append([]rigEvent(nil), s.Events...)
	sort.SliceStable(evs, func(i, j int) bool { return evs[i].T < evs[j].T })
	queue := make([][]rigEvent, s.Cores)
	next := 0
	val := int8(1)
	limit := 3000 + 1000*len(evs) // queued requests of one core run one after the other
	if len(evs) > 0 {
		limit += evs[len(evs)-1].T
	}
	for cycle := 0; cycle < limit; cycle++ {
		for next < len(evs) && evs[next].T <= cycle {
			e := evs[next]
			next++
			if e.Kind == "F" {
				rig.Flush(e.Core)
				queue[e.Core] = nil
				continue
			}
			queue[e.Core] = append(queue[e.Core], e)
		}
		pendingQ := false
		for c := 0; c < s.Cores; c++ {
			if len(queue[c]) > 0 && !rig.Busy(c) {
				e := queue[c][0]
				queue[c] = queue[c][1:]
				if e.Kind == "R" {
					rig.StartRead(c, e.Addr)
				} else {
					rig.StartWrite(c, e.Addr, val)
					written[e.Addr] = append(written[e.Addr], val)
					val++
					if val == 0 { // the initial memory is zero: keep written values distinguishable from it
						val = 1
					}
				}
			}
			if len(queue[c]) > 0 {
				pendingQ = true
			}
		}
		rig.Cycle()
		rec.add(rig.Snapshot())
		if next >= len(evs) && !pendingQ && rig.Quiet() {
			rig.Export()
			rec.add(rig.Snapshot())
			return rec.snaps, "", false, cycle, append([]int8(nil), rig.Memory()...), written
		}
	}
	return rec.snaps, "", true, limit, nil, written
}

func offsetsGrid(full bool) []int {
	if full {
		out := make([]int, 0, 360)
		for d := 0; d <= 700; d++ {
			if d <= 12 || d%2 == 0 || (d >= 300 && d <= 330) || (d >= 600 && d <= 640) {
				out = append(out, d) // every offset near the latency boundaries, every second one elsewhere
			}
		}
		return out
	}
	out := []int{0, 1, 2, 3, 4, 5, 8}
	for d := 300; d <= 322; d++ {
		out = append(out, d)
	}
	for d := 605; d <= 640; d += 3 {
		out = append(out, d)
	}
	return out
}

func rigSchedules(variant string) []rigSchedule {
	var out []rigSchedule
	full := tier == "thorough"
	kinds := []string{"R", "W"}
	// g: a gap that lets one miss complete before the next event (a miss takes ~315 cycles on MVP-7.x,
	// ~415 on MVP-8, which goes through the L3)
	g := 400
	if variant == "mvp8-0" {
		g = 600
	}
	// A. pairs
	for _, k1 := range kinds {
		for _, k2 := range kinds {
			for _, sameLine := range []bool{true, false} {
				for _, sameCore := range []bool{false, true} {
					for _, d := range offsetsGrid(full) {
						a2 := int32(64)
						if !sameLine {
							a2 = 192
						}
						c2 := 1
						if sameCore {
							c2 = 0
						}
						out = append(out, rigSchedule{Variant: variant, Cores: 2, Events: []rigEvent{{0, 0, k1, 64}, {d, c2, k2, a2 + 4}}})
					}
				}
			}
		}
	}
	// B. triples on a boundary grid, 3 cores, one line (+ a second line)
	grid := []int{0, 1, 3, 309, 312, 315, 620}
	if full {
		grid = []int{0, 1, 2, 3, 4, 50, 305, 309, 310, 311, 312, 313, 314, 315, 320, 618, 620, 622, 625, 930}
	}
	for _, k1 := range kinds {
		for _, k2 := range kinds {
			for _, k3 := range kinds {
				for _, d2 := range grid {
					for _, d3 := range grid {
						out = append(out, rigSchedule{Variant: variant, Cores: 3, Events: []rigEvent{{0, 0, k1, 64}, {d2, 1, k2, 68}, {d3, 2, k3, 72}}})
					}
				}
			}
		}
	}
	// C. eviction: core 0 touches 17 lines, core 1 then writes / reads one of them
	for _, k := range kinds {
		for _, k0 := range kinds {
			var evs []rigEvent
			for i := 0; i < 17; i++ {
				evs = append(evs, rigEvent{i, 0, k0, int32(64 * i)})
			}
			evs = append(evs, rigEvent{100, 1, k, 0}, rigEvent{101, 1, k, 64 * 16}, rigEvent{9000, 0, "R", 0})
			out = append(out, rigSchedule{Variant: variant, Cores: 2, Events: evs})
		}
	}
	// D. flush injected at every grid point of a miss, followed by a new access to the line
	step := 3
	if full {
		step = 1
	}
	for _, k := range kinds {
		for _, other := range []bool{false, true} {
			for t := 0; t <= 330; t += step {
				evs := []rigEvent{{0, 0, k, 64}, {t, 0, "F", 0}, {t + 400, 0, "R", 64}, {t + 800, 0, "W", 64}}
				if other {
					evs = append(evs, rigEvent{2, 1, "W", 64})
				}
				out = append(out, rigSchedule{Variant: variant, Cores: 2, Events: evs, Tags: []string{"rig_flush_mid_transfer"}})
			}
		}
	}
	// E. flush injected while a core re-reads / re-writes a line it already holds (Shared or Modified)
	for _, k1 := range kinds {
		for _, k2 := range kinds {
			for dt := 0; dt <= 8; dt++ {
				evs := []rigEvent{{0, 0, k1, 64}, {g, 0, k2, 64}, {g + dt, 0, "F", 0}, {g + 100, 1, "W", 64}, {g + 900, 0, "R", 64}}
				out = append(out, rigSchedule{Variant: variant, Cores: 2, Events: evs, Tags: []string{"rig_flush_owned_line"}})
			}
		}
	}
	// F. a request is aborted right after it sent its snoop commands; the other core re-accesses the line
	for _, k0 := range kinds {
		for d1 := 0; d1 <= 3; d1++ {
			for d2 := 0; d2 <= 5; d2++ {
				evs := []rigEvent{{0, 0, "R", 64}, {g, 1, "W", 64}, {g + d1, 1, "F", 0}, {g + d2, 0, k0, 64}, {3 * g, 1, "R", 64}}
				out = append(out, rigSchedule{Variant: variant, Cores: 2, Events: evs, Tags: []string{"rig_flush_after_commands"}})
			}
		}
	}
	// G. an upgrade/store to a line with two sharers while one sharer's snoop coroutine is busy
	// with the write-back of another line (3 cores, 2 lines; repeated: the command order is a map order)
	for _, k := range kinds {
		for d := 0; d <= 12; d += 2 {
			for rep := 0; rep < 4; rep++ {
				evs := []rigEvent{{0, 1, "R", 64}, {1, 2, "R", 64}, {g, 2, "W", 192}, {2 * g, 1, "R", 196}, {2*g + 2 + d, 0, k, 68}, {4*g + rep, 1, "R", 64}}
				out = append(out, rigSchedule{Variant: variant, Cores: 3, Events: evs})
				// the same with the writer being a third sharer (upgrade Shared -> Modified)
				evs2 := []rigEvent{{0, 1, "R", 64}, {1, 2, "R", 64}, {2, 0, "R", 64}, {g, 2, "W", 192}, {2 * g, 1, "R", 196}, {2*g + 2 + d, 0, k, 68}, {4*g + rep, 1, "R", 64}}
				out = append(out, rigSchedule{Variant: variant, Cores: 3, Events: evs2})
			}
		}
	}
	// I. one core owns two Modified lines and is (or is not) busy; two other cores ask for them in the same
	// cycle or a few cycles apart, then go on with work of different length (3 cores, 3 lines): several
	// snoop requests reach one core together
	for _, k1 := range kinds {
		for _, k2 := range kinds {
			for _, busy := range []bool{false, true} {
				for d := 0; d <= 2; d++ {
					evs := []rigEvent{{0, 0, "W", 0}, {g, 0, "W", 64}}
					if busy {
						evs = append(evs, rigEvent{3*g - 1, 0, "W", 192})
					}
					evs = append(evs, rigEvent{3 * g, 1, k1, 4}, rigEvent{3*g + d, 2, k2, 68}, rigEvent{3*g + 1, 1, "W", 256}, rigEvent{8 * g, 0, "R", 4}, rigEvent{8*g + 1, 2, "R", 8})
					out = append(out, rigSchedule{Variant: variant, Cores: 3, Events: evs})
				}
			}
		}
	}
	// J. the owner of a Modified line accesses it again while a remote request for the line is waiting for
	// the owner's write-back (2 and 3 cores)
	jgrid := []int{0, 1, 2, 3, 5, 50, 150, 300, 305, 308, 309, 310, 311, 312, 315, 320, 400}
	if full {
		jgrid = nil
		for d := 0; d <= 420; d += 2 {
			jgrid = append(jgrid, d)
		}
	}
	for _, k1 := range kinds {
		for _, k2 := range kinds {
			for _, d := range jgrid {
				out = append(out, rigSchedule{Variant: variant, Cores: 2, Events: []rigEvent{{0, 0, "W", 64}, {g, 1, k1, 68}, {g + d, 0, k2, 72}, {5 * g, 1, "R", 64}}})
				out = append(out, rigSchedule{Variant: variant, Cores: 3, Events: []rigEvent{{0, 0, "W", 64}, {g, 1, k1, 68}, {g + 1, 2, "R", 76}, {g + d, 0, k2, 72}, {5 * g, 1, "R", 64}, {5*g + 1, 2, "R", 64}}})
			}
		}
	}
	// L. a sharer upgrades (stores to) its Shared line while another core's read miss of that line is in
	// flight, at every point of the miss; the reader then reads the stored word (2 cores; 3 cores with a
	// second sharer)
	for _, d := range jgrid {
		out = append(out, rigSchedule{Variant: variant, Cores: 2, Events: []rigEvent{{0, 0, "R", 64}, {g, 1, "R", 68}, {g + d, 0, "W", 72}, {5 * g, 1, "R", 72}}})
		out = append(out, rigSchedule{Variant: variant, Cores: 3, Events: []rigEvent{{0, 0, "R", 64}, {1, 2, "R", 76}, {g, 1, "R", 68}, {g + d, 0, "W", 72}, {5 * g, 1, "R", 72}, {5*g + 1, 2, "R", 72}}})
	}
	// K. capacity eviction of a dirty line: core 0 writes 17 lines one after the other (the 17th displaces the
	// first, which is Modified, and writes it back); another core reads / writes that line at every point of a
	// sweep around the write-back
	kstep := 20
	if full {
		kstep = 8
	}
	for _, k := range kinds {
		for t := 4600; t <= 6600; t += kstep {
			var evs []rigEvent
			for i := 0; i < 17; i++ {
				evs = append(evs, rigEvent{i, 0, "W", int32(64 * i)})
			}
			evs = append(evs, rigEvent{t, 1, k, 4}, rigEvent{9000, 0, "R", 0}, rigEvent{9001, 1, "R", 8})
			out = append(out, rigSchedule{Variant: variant, Cores: 2, Events: evs})
		}
	}
	// H. (MVP-8) more lines than the shared L3 holds (32 lines of 128 bytes), written and re-read by two cores
	if variant == "mvp8-0" {
		for shape := 0; shape < 3; shape++ {
			for _, n := range []int{33, 36} {
				var evs []rigEvent
				for i := 0; i < n; i++ {
					switch shape {
					case 0:
						evs = append(evs, rigEvent{i * 5, 0, "W", int32(i * 128)})
					case 1:
						evs = append(evs, rigEvent{i * 5, 0, "W", int32(i * 128)}, rigEvent{i*5 + 2, 1, "W", int32(i*128 + 64)})
					case 2:
						evs = append(evs, rigEvent{i * 5, 0, "W", int32(i*132 + 60)}, rigEvent{i*5 + 2, 1, "W", int32(i*132 + 124)}, rigEvent{i*5 + 3, 0, "R", int32(i*132 + 124)})
					}
				}
				evs = append(evs, rigEvent{20000, 1, "R", 0}, rigEvent{20400, 1, "R", 128}, rigEvent{20800, 0, "R", 64})
				out = append(out, rigSchedule{Variant: variant, Cores: 2, Events: evs, Tags: []string{"rig_l3_overflow"}})
			}
		}
	}
	return out
}

type c06Bad struct {
	Line int      `json:"line"`
	Run  int      `json:"run"`
	Bad  []string `json:"bad"`
}

// validateTrace runs TLC on MSITrace over the ndjson file and returns the false clauses per run.
func validateTrace(r *Reporter, path string, lines int) map[int]map[string]int {
	res := map[int]map[string]int{}
	if lines == 0 {
		return res
	}
	cfg := "INIT Init\nNEXT Next\nINVARIANT Report\nPOSTCONDITION TraceAccepted\n"
	st, err := RunTLC(TLCOpts{Module: "MSITrace", Cfg: cfg, Workers: 1, Env: map[string]string{"TRACE_FILE": path}}, func(raw []byte) {
		var b c06Bad
		if err := json.Unmarshal(raw, &b); err != nil {
			inconclusive("bad MSITrace report: %v: %s", err, raw)
		}
		if res[b.Run] == nil {
			res[b.Run] = map[string]int{}
		}
		for _, n := range b.Bad {
			if _, ok := res[b.Run][n]; !ok {
				res[b.Run][n] = b.Line
			}
		}
	})
	if err != nil {
		inconclusive("TLC MSITrace: %v", err)
	}
	if st.PostFailed || st.Distinct != int64(lines) {
		inconclusive("MSITrace consumed %d of %d trace lines: %s", st.Distinct, lines, tail(st.Output, 15))
	}
	r.addTLC(st)
	return res
}

func init() {
	register("C06", func(r *Reporter) {
		r.Level = "model_checking"
		r.Cov["rule"] = "(1) TLC checks the C06 clauses (spec/MSIProps.tla) exhaustively on the design model spec/MSI.tla for 2 cores x 2 lines and 3 cores x 1 line (all interleavings of up to MaxOps requests per core), with deadlock-freedom, completion under fairness and the action property LegalSteps (protocol state rises only for a core with a request in progress, falls only through a snoop command; presence and lock counters change accordingly); (2) the verif rig drives the real cache controllers of MVP-7.0/7.1/8 with request schedules (all pairs R/W x same/different line x same/different core at every offset of a grid (thorough: every offset near the latency boundaries and every second offset of 0..700), triples on a boundary grid, 17-line eviction warm-ups, a flush injected at every grid point of a miss) and full CPU runs of the MemDep/Tail/General families on 1..4 cores export one snapshot per cycle; TLC (spec/MSITrace.tla) evaluates every clause on every logged implementation state and LegalStep on every pair of consecutive logged states. Distinct = schedules / (program, cores) pairs; non-trivial = at least two requests"
		r.Assumptions = []string{"hash equality stands for byte identity", "latencies are compile-time constants of the code, so the rig explores timing offsets, not arbitrary interleavings of coroutine steps", "consecutive identical snapshots are logged once"}
		// ---- (1) design level
		type dcfg struct {
			consts string
			live   bool
		}
		designs := []dcfg{
			{" Cores = {0,1}\n Lines = {1,2}\n Cap = 1\n MaxOps = 2\n MaxFlush = 0\n", true},
			{" Cores = {0,1,2}\n Lines = {1}\n Cap = 1\n MaxOps = 2\n MaxFlush = 0\n", false},
		}
		if tier == "thorough" {
			designs = append(designs, dcfg{" Cores = {0,1}\n Lines = {1,2,3}\n Cap = 2\n MaxOps = 3\n MaxFlush = 0\n", false},
				dcfg{" Cores = {0,1,2}\n Lines = {1,2}\n Cap = 1\n MaxOps = 2\n MaxFlush = 0\n", false})
		}
		for _, d := range designs {
			cfg := "SPECIFICATION Spec\nINVARIANTS SWMR SharedClean Presence NoDuplicate SemNonNegative NoPanic Capacity NoDeadlock\nPROPERTY LegalSteps\nCONSTANTS\n" + d.consts
			if d.live {
				cfg = "SPECIFICATION LiveSpec\nINVARIANTS SWMR SharedClean Presence NoDuplicate SemNonNegative NoPanic Capacity NoDeadlock\nPROPERTIES Live LegalSteps\nCONSTANTS\n" + d.consts
			}
			st, err := RunTLC(TLCOpts{Module: "MSI", Cfg: cfg}, nil)
			if err != nil {
				inconclusive("TLC MSI: %v", err)
			}
			if st.Violated != "" {
				// a counter-example on the model alone is not a verdict about the code
				inconclusive("the design model MSI.tla violates %s (flush-free configuration): the model must be corrected or the counter-example reproduced on the rig: %s", st.Violated, tail(st.Output, 30))
			}
			r.addTLC(st)
		}
		// prediction: with Flush enabled the model leaves a line resident with state Invalid
		pst, _ := RunTLC(TLCOpts{Module: "MSI", Cfg: "SPECIFICATION Spec\nINVARIANTS SWMR SharedClean Presence NoDuplicate SemNonNegative NoPanic Capacity\nCONSTANTS\n Cores = {0,1}\n Lines = {1,2}\n Cap = 1\n MaxOps = 2\n MaxFlush = 1\n"}, nil)
		r.Cov["design_prediction_with_flush"] = "clause violated on the model with one Flush: " + pst.Violated + " (searched for on the rig below)"

		// ---- (2) rig schedules
		dir := newWorkDir("c06trace")
		for _, variant := range []string{"mvp7-0", "mvp7-1", "mvp8-0"} {
			scheds := rigSchedules(variant)
			path := filepath.Join(dir, variant+".rig.ndjson")
			tw := newTraceWriter(path)
			type outcome struct {
				s     rigSchedule
				panic string
				stuck bool
			}
			outcomes := make([]outcome, len(scheds))
			ids := make([]int, len(scheds))
			ch := make(chan int, 64)
			go func() {
				for i := range scheds {
					ch <- i
				}
				close(ch)
			}()
			parallel(ch, 16, func(i int) {
				snaps, pm, stuck := runSchedule(scheds[i])
				outcomes[i] = outcome{scheds[i], pm, stuck}
				ids[i] = tw.addRun(scheds[i], snaps)
				r.Eval(hashKey(scheds[i].String()), len(scheds[i].Events) >= 2)
			})
			tw.close()
			r.Sample(map[string]any{"rig_schedule": scheds[len(scheds)/3].String(), "snapshots": tw.byRun[ids[len(scheds)/3]][1] - tw.byRun[ids[len(scheds)/3]][0] + 1})
			bad := validateTrace(r, path, tw.lines)
			r.addTraces(int64(len(scheds)))
			runToIdx := map[int]int{}
			for i, id := range ids {
				runToIdx[id] = i
			}
			report := func(s rigSchedule, clause, what string) {
				tags := append([]string{"rig:" + clause}, s.Tags...)
				cfg := Config{Variant: s.Variant, Par: s.Cores}
				desc := fmt.Sprintf("rig %s: %s", s.String(), what)
				for _, t := range s.Tags {
					if id := matchFinding("C06", []string{t + ":" + clause}, &cfg, clause); id != "" {
						r.KnownOn(id, cfg.String(), desc)
						return
					}
				}
				_ = tags
				ss := s
				r.ViolateMin("rig|"+s.Variant+"|"+clause, len(s.Events)*1000+s.Events[len(s.Events)-1].T, desc, func() any { return ss })
			}
			for run, clauses := range bad {
				s := scheds[runToIdx[run]]
				for cl, line := range clauses {
					report(s, cl, fmt.Sprintf("clause %s is false on the logged implementation state at trace line %d", cl, line))
				}
			}
			for _, o := range outcomes {
				// only panics that are C06 clauses belong here (lock counter negative); the others are C07's (see rigLiveness)
				if o.panic != "" && strings.Contains(o.panic, "is negative") {
					report(o.s, "SemNonNegative", "panic: "+o.panic)
				}
			}
		}
		// ---- (3) CPU runs with the per-cycle snapshot exporter
		cpuTraces(r, dir)
	})
}

type snapshotter interface{ VerifSnapshot() comp.VerifSnap }

// cpuTraces runs program families on the multi-core variants with the snapshot hook and validates the traces.
func cpuTraces(r *Reporter, dir string) {
	fams := []famRun{famRunOf("MemDep", "small"), famRunOf("Tail", "small")}
	if tier == "thorough" {
		fams = []famRun{famRunOf("MemDep", "large"), famRunOf("Tail", "large"), famRunOf("Shadow", "small"), generalRuns()[2]} // MemWalk's long runs made the trace validation exceed 90 minutes
	} else {
		fams = append(fams, generalRuns()[2])
	}
	type runDesc struct {
		Case *ProgCase
		Cfg  Config
	}
	// the cases are generated once (the cycle-accurate MVP-4/5 model is not needed here) and run on the three variants
	var cases []*ProgCase
	var cmu sync.Mutex
	for _, fr := range fams {
		o := TLCOpts{Module: fr.Module, Cfg: famCfg(fr.Consts), Simulate: fr.Simulate, Depth: fr.Depth, Seed: seed*1000 + fr.SeedOff, Env: map[string]string{"VERIF_CYC4": "0"}}
		streamCases(r, o, 4, func(c *ProgCase) {
			if c.Exp.Status == "err" {
				return
			}
			cmu.Lock()
			cases = append(cases, c)
			cmu.Unlock()
		})
	}
	for _, variant := range []string{"mvp7-0", "mvp7-1", "mvp8-0"} {
		path := filepath.Join(dir, variant+".cpu.ndjson")
		tw := newTraceWriter(path)
		var descs []runDesc
		var dmu sync.Mutex
		ch := make(chan *ProgCase, 64)
		go func() {
			for _, c := range cases {
				ch <- c
			}
			close(ch)
		}()
		parallel(ch, 16, func(c *ProgCase) {
			for par := 1; par <= 4; par++ {
				cfg := Config{Variant: variant, Par: par}
				snaps := cpuSnapshots(c, cfg)
				r.Eval(hashKey("cpu", c.Key(), cfg.String()), true)
				dmu.Lock()
				id := tw.addRunLocked(snaps)
				for len(descs) <= id {
					descs = append(descs, runDesc{})
				}
				descs[id] = runDesc{c, cfg}
				dmu.Unlock()
			}
		})
		tw.close()
		bad := validateTrace(r, path, tw.lines)
		r.addTraces(int64(len(descs)))
		if len(descs) > 0 {
			d := descs[len(descs)/2]
			r.Sample(map[string]any{"cpu_run": oneLine(d.Case.Prog), "config": d.Cfg.String()})
		}
		for run, clauses := range bad {
			d := descs[run]
			for cl, line := range clauses {
				desc := fmt.Sprintf("%s on %s: clause %s is false on the logged implementation state at trace line %d [%s]", oneLine(d.Case.Prog), d.Cfg, cl, line, strings.Join(d.Case.Tags, ","))
				tags := []string{}
				for _, t := range d.Case.Tags {
					tags = append(tags, t+":"+cl)
				}
				if id := matchFinding("C06", tags, &d.Cfg, cl); id != "" {
					r.KnownOn(id, d.Cfg.String(), desc)
					continue
				}
				dd := d
				r.ViolateMin("cpu|"+d.Cfg.Variant+"|"+cl, len(d.Case.Prog)*100+d.Cfg.Par, desc, func() any { return dd.Case.Replay(dd.Cfg, Obs{Cfg: dd.Cfg}) })
			}
		}
	}
}

func (t *traceWriter) addRunLocked(snaps [][]byte) int { return t.addRun(nil, snaps) }

// cpuSnapshots runs the case on a multi-core CPU with a snapshot per tick (deduplicated).
func cpuSnapshots(c *ProgCase, cfg Config) [][]byte {
	app, err := risc.Parse(c.Text())
	if err != nil {
		return nil
	}
	vm := cfg.New(c.MemSize)
	ctx := vm.Context()
	for a := 0; a < c.MemSize; a++ {
		ctx.Memory[a] = int8(ImgByte(c.Img, a))
	}
	for rg, v := range c.Regs0 {
		ctx.Registers[regByName(rg)] = v
	}
	rec := &snapRecorder{}
	sn := vm.(snapshotter)
	budget := Budget(c.Exp.N, cfg.Par)
	var ticks int64
	ctx.SetVerifHooks(&risc.VerifHooks{Tick: func(int) {
		ticks++
		if ticks > budget {
			panic(budgetExceeded{})
		}
		rec.add(sn.VerifSnapshot())
	}})
	func() {
		defer func() { _ = recover() }()
		_, _ = vm.Run(app)
		rec.add(sn.VerifSnapshot())
	}()
	return rec.snaps
}

// rigLiveness (C07): every rig schedule must complete without a panic.
func rigLiveness(r *Reporter) {
	for _, variant := range []string{"mvp7-0", "mvp7-1", "mvp8-0"} {
		scheds := rigSchedules(variant)
		ch := make(chan int, 64)
		go func() {
			for i := range scheds {
				ch <- i
			}
			close(ch)
		}()
		parallel(ch, 16, func(i int) {
			s := scheds[i]
			_, pm, stuck := runSchedule(s)
			r.Eval(hashKey("rig", s.String()), len(s.Events) >= 2)
			r.addTraces(1)
			sym, what := "", ""
			if pm != "" && !strings.Contains(pm, "is negative") {
				sym, what = "panic", "panic: "+pm
			} else if stuck {
				sym, what = "hang", "requests still outstanding 3000 + 1000 x requests cycles after the last event"
			}
			if sym == "" {
				return
			}
			cfg := Config{Variant: s.Variant, Par: s.Cores}
			desc := fmt.Sprintf("rig %s: %s", s.String(), what)
			for _, t := range s.Tags {
				if id := matchFinding("C07", []string{t + ":" + sym}, &cfg, sym); id != "" {
					r.KnownOn(id, cfg.String(), desc)
					return
				}
			}
			ss := s
			r.ViolateMin("rig|"+s.Variant+"|"+sym, len(s.Events)*1000+s.Events[len(s.Events)-1].T, desc, func() any { return ss })
		})
	}
}

// selftest: demonstrates that the trace binding rejects corrupted traces.
func init() {
	register("selftest", func(r *Reporter) {
		dir := newWorkDir("selftest")
		s := rigSchedule{Variant: "mvp7-0", Cores: 2, Events: []rigEvent{{0, 0, "W", 64}, {5, 1, "R", 64}, {700, 1, "W", 68}}}
		snaps, pm, stuck := runSchedule(s)
		if pm != "" || stuck || len(snaps) < 5 {
			inconclusive("selftest schedule did not run: %v %v %d", pm, stuck, len(snaps))
		}
		// 1. the faithful trace is accepted with no false clause
		good := filepath.Join(dir, "good.ndjson")
		tw := newTraceWriter(good)
		tw.addRun(s, snaps)
		tw.close()
		if bad := validateTrace(r, good, tw.lines); len(bad) != 0 {
			inconclusive("selftest: faithful trace rejected: %v", bad)
		}
		fmt.Printf("selftest: faithful trace of %d states accepted\n", tw.lines)
		// 2. one corrupted field (a second Modified holder) must be reported as SWMR
		var mid map[string]any
		k := len(snaps) / 2
		for i, sn := range snaps {
			_ = json.Unmarshal(sn, &mid)
			ls := mid["lines"].([]any)
			if len(ls) > 0 {
				k = i
			}
		}
		_ = json.Unmarshal(snaps[k], &mid)
		line0 := mid["lines"].([]any)[0].(map[string]any)
		line0["st"] = []int{2, 2}
		corrupted, _ := json.Marshal(mid)
		snaps2 := append([][]byte{}, snaps...)
		snaps2[k] = corrupted
		badPath := filepath.Join(dir, "bad.ndjson")
		tw2 := newTraceWriter(badPath)
		tw2.addRun(s, snaps2)
		tw2.close()
		bad := validateTrace(r, badPath, tw2.lines)
		if _, ok := bad[0]["SWMR"]; !ok {
			inconclusive("selftest: corrupted trace NOT rejected (%v)", bad)
		}
		fmt.Printf("selftest: trace with one corrupted field rejected: clause SWMR false at line %d\n", bad[0]["SWMR"])
		r.Eval("good", true)
		r.Eval("bad", true)
		r.Sample("faithful and corrupted MSI snapshot traces")
		propID = "selftest"
	})
}
