package main

import (
	"encoding/json"
	"fmt"

	"github.com/teivah/majorana/proc/comp"
	"github.com/teivah/majorana/risc"
)

type txStep struct {
	Op       string           `json:"op"`
	Reg      string           `json:"reg"`
	Tag      int32            `json:"tag"`
	Val      int32            `json:"val"`
	Ret      int32            `json:"ret"`
	Allowed  []int32          `json:"allowed"`
	Regs     map[string]int32 `json:"regs"`
	Ooo      bool             `json:"ooo"`
	Overflow bool             `json:"overflow"`
	OvReg    bool             `json:"ovreg"`
}

type txHist struct {
	Mode string   `json:"mode"`
	Ring int      `json:"ring"`
	Hist []txStep `json:"hist"`
}

type ringTU struct {
	tag int32
	val int32
}

// txImpl is one of the three implementations bound to spec/RegTx.tla.
type txImpl interface {
	write(reg string, val, tag int32)
	read(reg string, tag int32) int32
	commit()
	rollback(s int32)
	arch(reg string) int32
}

type ctxImpl struct {
	ctx     *risc.Context
	rat     bool
	readers map[string]risc.InstructionRunner
}

func newCtxImpl(rat bool, regs []string) *ctxImpl {
	c := &ctxImpl{ctx: risc.NewContext(false, 16, rat), rat: rat, readers: map[string]risc.InstructionRunner{}}
	for _, r := range regs {
		app, err := risc.Parse("mv t6, " + r)
		if err != nil {
			panic(err)
		}
		c.readers[r] = app.Instructions[0]
	}
	return c
}
func (c *ctxImpl) setInit(reg string, v int32) { c.ctx.Registers[regByName(reg)] = v }
func (c *ctxImpl) start() {
	if c.rat {
		c.ctx.InitRAT()
	}
}
func (c *ctxImpl) write(reg string, val, tag int32) {
	exe := risc.Execution{RegisterChange: true, Register: regByName(reg), RegisterValue: val}
	if c.rat {
		c.ctx.TransactionRATWrite(exe, tag)
	} else {
		c.ctx.TransactionWriteRegister(exe, tag)
	}
}
func (c *ctxImpl) read(reg string, tag int32) int32 {
	exe, err := c.readers[reg].Run(c.ctx, nil, 0, nil, tag)
	if err != nil {
		panic(err)
	}
	return exe.RegisterValue
}
func (c *ctxImpl) commit() {
	if c.rat {
		c.ctx.RATCommit()
		c.ctx.RATFlush()
	} else {
		c.ctx.Commit()
	}
}
func (c *ctxImpl) rollback(s int32) {
	if c.rat {
		c.ctx.RATRollback(s)
		c.ctx.RATFlush()
	} else {
		c.ctx.Rollback(s)
	}
}
func (c *ctxImpl) arch(reg string) int32 { return c.ctx.Registers[regByName(reg)] }

// ringImpl drives comp.RAT directly with an arbitrary ring length, composing
// the two tables the way risc.Context does (committed values + transaction).
type ringImpl struct {
	n         int
	committed *comp.RAT[string, int32]
	tx        *comp.RAT[string, ringTU]
}

func newRingImpl(n int) *ringImpl {
	return &ringImpl{n: n, committed: comp.NewRAT[string, int32](n), tx: comp.NewRAT[string, ringTU](n)}
}
func (c *ringImpl) setInit(reg string, v int32)      { c.committed.Write(reg, v) }
func (c *ringImpl) write(reg string, val, tag int32) { c.tx.Write(reg, ringTU{tag, val}) }
func (c *ringImpl) read(reg string, tag int32) int32 {
	if tag == 0 {
		if v, ok := c.tx.Read(reg); ok {
			return v.val
		}
	} else if v, ok := c.tx.Find(reg, func(u ringTU) bool { return u.tag <= tag }); ok {
		return v.val
	}
	v, _ := c.committed.Read(reg)
	return v
}
func (c *ringImpl) commit() {
	for r, u := range c.tx.Values() {
		c.committed.Write(r, u.val)
	}
	c.tx = comp.NewRAT[string, ringTU](c.n)
}
func (c *ringImpl) rollback(s int32) {
	for r, u := range c.tx.FindValues(func(u ringTU) bool { return u.tag < s }) {
		c.committed.Write(r, u.val)
	}
	c.tx = comp.NewRAT[string, ringTU](c.n)
}
func (c *ringImpl) arch(reg string) int32 { v, _ := c.committed.Read(reg); return v }

var txRegs = []string{"t0", "t1"}

func txInit(r string) int32 {
	switch r {
	case "t0":
		return 11
	case "t1":
		return 22
	}
	return 33
}

// replayTx returns the mismatches of one history: (category, ooo flag, detail, step).
func replayTx(h txHist) (out [][4]string) {
	bad := func(cat string, s txStep, k int, format string, a ...any) {
		suffix := ""
		if s.Ooo {
			suffix = ":ooo"
		}
		out = append(out, [4]string{cat + suffix, fmt.Sprintf(format, a...), fmt.Sprint(k), ""})
	}
	defer func() {
		if p := recover(); p != nil {
			out = append(out, [4]string{"panic", fmt.Sprint(p), "0", ""})
		}
	}()
	var impl txImpl
	switch h.Mode {
	case "map", "rat":
		c := newCtxImpl(h.Mode == "rat", txRegs)
		for _, r := range txRegs {
			c.setInit(r, txInit(r))
		}
		c.start()
		impl = c
	case "ring":
		c := newRingImpl(h.Ring)
		for _, r := range txRegs {
			c.setInit(r, txInit(r))
		}
		impl = c
	}
	for k, s := range h.Hist {
		switch s.Op {
		case "Write":
			impl.write(s.Reg, s.Val, s.Tag)
		case "Read":
			got := impl.read(s.Reg, s.Tag)
			if s.Tag == 0 {
				if got != s.Ret {
					bad("plainread", s, k, "plain read of %s = %d, want %d (the youngest uncommitted write)", s.Reg, got, s.Ret)
				}
			} else if !s.OvReg {
				ok := false
				for _, a := range s.Allowed {
					if a == got {
						ok = true
					}
				}
				if !ok {
					bad("taggedread", s, k, "read of %s on behalf of tag %d = %d: written by a younger instruction (allowed %v)", s.Reg, s.Tag, got, s.Allowed)
				}
			}
		case "Commit", "Rollback":
			if s.Op == "Commit" {
				impl.commit()
			} else {
				impl.rollback(s.Tag)
			}
			if s.Op == "Rollback" && s.Overflow {
				return // beyond the table's slots only commit and plain reads are specified; the state is unknown afterwards
			}
			diverged := false
			for _, r := range txRegs {
				if got, want := impl.arch(r), s.Regs[r]; got != want {
					cat := "commit"
					if s.Op == "Rollback" {
						cat = "rollback"
					}
					bad(cat, s, k, "after %s(%d): %s = %d, want %d", s.Op, s.Tag, r, got, want)
					diverged = true
				}
			}
			if diverged {
				return // the state projection differs: later comparisons would be meaningless
			}
		}
	}
	return
}

func init() {
	register("C15", func(r *Reporter) {
		r.Level = "model_checking"
		r.Cov["rule"] = "TLC enumerates every history of length K of spec/RegTx.tla (write(reg,tag) / read(reg,tag) / commit / rollback(tag) over 2 registers and 3 tags in arbitrary order) and simulates long ones; each history is replayed on risc.Context in transaction-map mode, in rename-table mode (ring 10) and on comp.RAT directly with ring lengths 2 and 3; after every read the returned value and after every commit/rollback the architectural registers are compared with the property's own definition (youngest = greatest tag). Distinct by op sequence and mode; non-trivial = at least one write followed by a commit, rollback or read"
		type run struct {
			mode     string
			ring     int
			k        int
			simulate string
			depth    int
			sample   int
		}
		k := 4
		nsim := "num=200"
		if tier == "thorough" {
			k = 5
			nsim = "num=3000"
		}
		runs := []run{
			{"map", 1, k, "", 0, 0}, {"rat", 10, k, "", 0, 0}, {"ring", 2, k, "", 0, 0}, {"ring", 3, k, "", 0, 0},
			{"rat", 10, 40, nsim, 41, 3}, {"ring", 3, 40, nsim, 41, 3}, {"map", 1, 40, nsim, 41, 3},
		}
		for i, ru := range runs {
			tags := "{4, 8, 12}"
			if ru.simulate != "" {
				tags = "{4, 8, 12, 16, 1004, 1008}"
			}
			cfg := fmt.Sprintf("INIT Init\nNEXT Next\nINVARIANTS Emit ValuesWritten\nCONSTANTS\n Mode = \"%s\"\n Ring = %d\n Regs = {\"t0\", \"t1\"}\n Tags = %s\n K = %d\n Sample = %d\n", ru.mode, ru.ring, tags, ru.k, ru.sample)
			ch := make(chan txHist, 256)
			done := make(chan struct{})
			go func() {
				parallel(ch, 8, func(h txHist) {
					key := h.Mode + fmt.Sprint(h.Ring)
					w, obs := false, false
					var ops []string
					for _, s := range h.Hist {
						key += fmt.Sprintf("%s%s%d,", s.Op, s.Reg, s.Tag)
						if s.Op == "Write" {
							w = true
						} else if w {
							obs = true
						}
						if len(ops) < 12 {
							ops = append(ops, fmt.Sprintf("%s(%s,%d)", s.Op, s.Reg, s.Tag))
						}
					}
					r.Eval(hashKey(key), obs)
					if obs {
						r.Sample(map[string]any{"mode": h.Mode, "ring": h.Ring, "history": ops})
					}
					for _, m := range replayTx(h) {
						tag := "regtx:" + h.Mode + ":" + m[0]
						what := fmt.Sprintf("%s (ring %d) step %s of %v: %s", h.Mode, h.Ring, m[2], ops, m[1])
						if id := matchFinding("C15", []string{tag}, nil, m[0]); id != "" {
							r.Known(id, what)
							continue
						}
						hh := h
						r.ViolateMin(tag, len(h.Hist), what, func() any { return hh })
					}
				})
				close(done)
			}()
			st, err := RunTLC(TLCOpts{Module: "RegTx", Cfg: cfg, Simulate: ru.simulate, Depth: ru.depth, Seed: seed*100 + int64(i)}, func(raw []byte) {
				var h txHist
				if err := json.Unmarshal(raw, &h); err != nil {
					inconclusive("bad regtx history: %v: %s", err, raw)
				}
				ch <- h
			})
			close(ch)
			<-done
			if err != nil {
				inconclusive("TLC RegTx: %v", err)
			}
			if st.Violated != "" {
				inconclusive("the RegTx model violates its own invariant %s", st.Violated)
			}
			r.addTLC(st)
			r.addTraces(st.Lines)
		}
	})
}
