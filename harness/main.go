package main

import (
	"crypto/sha1"
	"encoding/hex"
	"encoding/json"
	"fmt"
	"os"
	"path/filepath"
	"sort"
	"strconv"
	"strings"
	"sync"
	"time"
)

var (
	propID    string
	tier      = "quick"
	seed      int64
	replayArg string
	startTime = time.Now()
)

type checkFn func(r *Reporter)

var checks = map[string]checkFn{}

func register(id string, f checkFn) { checks[id] = f }

func main() {
	if len(os.Args) < 2 {
		fmt.Fprintln(os.Stderr, "usage: verif <Cxx|selftest> [quick|thorough] [--replay file]")
		os.Exit(2)
	}
	propID = os.Args[1]
	if t := os.Getenv("VERIF_TIER"); t == "quick" || t == "thorough" {
		tier = t
	}
	args := os.Args[2:]
	for i := 0; i < len(args); i++ {
		switch args[i] {
		case "quick", "thorough":
			tier = args[i]
		case "--replay":
			if i+1 < len(args) {
				replayArg = args[i+1]
				i++
			}
		}
	}
	seed = 1
	if s := os.Getenv("VERIF_SEED"); s != "" {
		if v, err := strconv.ParseInt(s, 10, 64); err == nil {
			seed = v
		}
	}
	f, ok := checks[propID]
	if !ok {
		fmt.Fprintf(os.Stderr, "unknown check %s\n", propID)
		os.Exit(2)
	}
	if os.Getenv("VERIF_KEEP") == "" {
		defer os.RemoveAll(workRoot())
	}
	r := newReporter()
	if replayArg != "" && propID != "C02" {
		replayFile(r, replayArg)
	} else {
		f(r)
	}
	r.finish()
}

func inconclusive(format string, a ...any) {
	fmt.Printf("INCONCLUSIVE property=%s %s\n", propID, fmt.Sprintf(format, a...))
	if os.Getenv("VERIF_KEEP") == "" {
		os.RemoveAll(workRoot())
	}
	os.Exit(2)
}

// ---------------------------------------------------------------- findings

// Finding is one entry of /verif/known_findings.json: a genuine defect of the
// unchanged tree that is recorded rather than repaired.
type Finding struct {
	ID         string   `json:"id"`
	Properties []string `json:"properties"`
	// Tag names the class predicate of spec/Findings.tla (evaluated by TLC on
	// each generated case) or a component-level class computed by the spec.
	Tag      string          `json:"tag,omitempty"`
	Tags     []string        `json:"tags,omitempty"`
	Variants []string        `json:"variants,omitempty"` // empty = all
	MinPar   int             `json:"min_par,omitempty"`
	MaxPar   int             `json:"max_par,omitempty"`
	Symptoms []string        `json:"symptoms,omitempty"` // empty = any; else subset of value, hang, panic, error, cycles
	What     string          `json:"what"`
	Site     string          `json:"site"`
	Witness  json.RawMessage `json:"witness,omitempty"`
}

type FindingsFile struct {
	Findings []Finding `json:"findings"`
	Fixed    []string  `json:"fixed"`
}

var (
	findingsOnce sync.Once
	findings     FindingsFile
)

func loadFindings() FindingsFile {
	findingsOnce.Do(func() {
		b, err := os.ReadFile("/verif/known_findings.json")
		if err != nil {
			return
		}
		if err := json.Unmarshal(b, &findings); err != nil {
			inconclusive("known_findings.json: %v", err)
		}
	})
	return findings
}

func (f Finding) appliesTo(prop string) bool {
	for _, p := range f.Properties {
		if p == prop {
			return true
		}
	}
	return false
}

func (f Finding) coversConfig(c Config) bool {
	if len(f.Variants) > 0 {
		ok := false
		for _, v := range f.Variants {
			if v == c.Variant {
				ok = true
			}
		}
		if !ok {
			return false
		}
	}
	if f.MinPar != 0 && c.Par < f.MinPar && (c.WU == 0 || c.WU < f.MinPar) {
		return false
	}
	if f.MaxPar != 0 && c.Par > f.MaxPar {
		return false
	}
	return true
}

func (f Finding) coversSymptom(s string) bool {
	if len(f.Symptoms) == 0 {
		return true
	}
	for _, x := range f.Symptoms {
		if x == s {
			return true
		}
	}
	return false
}

// matchFinding returns the id of a listed finding that covers a failing case
// with the given class tags on the given configuration, or "".
func matchFinding(prop string, tags []string, cfg *Config, symptom string) string {
	for _, f := range loadFindings().Findings {
		if !f.appliesTo(prop) || !f.coversSymptom(symptom) {
			continue
		}
		if cfg != nil && !f.coversConfig(*cfg) {
			continue
		}
		for _, t := range tags {
			if f.Tag != "" && t == f.Tag {
				return f.ID
			}
			for _, ft := range f.Tags {
				if t == ft {
					return f.ID
				}
			}
		}
	}
	return ""
}

// ---------------------------------------------------------------- reporter

type Violation struct {
	Key    string
	Replay string
	What   string
}

type Reporter struct {
	mu          sync.Mutex
	violations  []Violation
	vioKeys     map[string]bool
	vioCount    int
	knownCounts map[string]int
	knownWhat   map[string]string
	Level       string
	Cov         map[string]any
	Assumptions []string
	samples     []any
	distinct    map[string]struct{}
	evals       int64
	notes       []string
	minV        map[string]*minVio
	knownCfg    map[string]map[string]int
}

func newReporter() *Reporter {
	return &Reporter{vioKeys: map[string]bool{}, knownCounts: map[string]int{}, knownWhat: map[string]string{},
		Cov: map[string]any{}, distinct: map[string]struct{}{}, Level: "model_checking"}
}

func hashKey(parts ...string) string {
	h := sha1.Sum([]byte(strings.Join(parts, "\x00")))
	return hex.EncodeToString(h[:])[:12]
}

// Eval counts one evaluated case; key identifies it for the distinct count;
// nontrivial says whether it counts as non-trivial under the check's rule.
func (r *Reporter) Eval(key string, nontrivial bool) {
	r.mu.Lock()
	r.evals++
	if nontrivial {
		r.distinct[key] = struct{}{}
	}
	r.mu.Unlock()
}

func (r *Reporter) Sample(s any) {
	r.mu.Lock()
	if len(r.samples) < 6 {
		r.samples = append(r.samples, s)
	}
	r.mu.Unlock()
}

func (r *Reporter) Note(format string, a ...any) {
	r.mu.Lock()
	r.notes = append(r.notes, fmt.Sprintf(format, a...))
	r.mu.Unlock()
}

// Known records a failing observation that is covered by a listed finding.
func (r *Reporter) Known(id string, what string) {
	r.mu.Lock()
	r.knownCounts[id]++
	if _, ok := r.knownWhat[id]; !ok {
		r.knownWhat[id] = what
	}
	r.mu.Unlock()
}

// Violate records a violation; the replay object is written to a file.
func (r *Reporter) Violate(key string, what string, replay any) {
	r.mu.Lock()
	defer r.mu.Unlock()
	r.vioCount++
	if r.vioKeys[key] || len(r.violations) >= 25 {
		return
	}
	r.vioKeys[key] = true
	dir := filepath.Join("/verif/replays", propID)
	if o := os.Getenv("VERIF_OUT_DIR"); o != "" {
		dir = filepath.Join(o, "replays", propID)
	}
	_ = os.MkdirAll(dir, 0o755)
	path := filepath.Join(dir, key+".json")
	b, _ := json.MarshalIndent(map[string]any{"property": propID, "what": what, "case": replay}, "", " ")
	_ = os.WriteFile(path, b, 0o644)
	r.violations = append(r.violations, Violation{Key: key, Replay: path, What: what})
}

// KnownOn records a known-finding observation together with its configuration.
func (r *Reporter) KnownOn(id string, cfg string, what string) {
	r.Known(id, what)
	r.mu.Lock()
	if r.knownCfg == nil {
		r.knownCfg = map[string]map[string]int{}
	}
	if r.knownCfg[id] == nil {
		r.knownCfg[id] = map[string]int{}
	}
	r.knownCfg[id][cfg]++
	r.mu.Unlock()
}

// ViolateMin records a violation under a cluster key and keeps the smallest
// (by size) replay of the cluster.
func (r *Reporter) ViolateMin(key string, size int, what string, replay func() any) {
	r.mu.Lock()
	defer r.mu.Unlock()
	r.vioCount++
	if r.minV == nil {
		r.minV = map[string]*minVio{}
	}
	cur, ok := r.minV[key]
	if ok && cur.size <= size {
		cur.count++
		return
	}
	n := 1
	if ok {
		n = cur.count + 1
	}
	r.minV[key] = &minVio{size: size, what: what, replay: replay(), count: n}
}

type minVio struct {
	size   int
	what   string
	replay any
	count  int
}

func (r *Reporter) flushMin() {
	keys := make([]string, 0, len(r.minV))
	for k := range r.minV {
		keys = append(keys, k)
	}
	sort.Strings(keys)
	for _, k := range keys {
		v := r.minV[k]
		r.vioCount -= v.count // Violate counts again
		for i := 0; i < v.count-1; i++ {
			r.vioCount++
		}
		r.Violate(hashKey(k), fmt.Sprintf("%s (cluster %s: %d failing observations)", v.what, k, v.count), v.replay)
	}
}

func (r *Reporter) finish() {
	r.flushMin()
	ff := loadFindings()
	ids := make([]string, 0, len(r.knownCounts))
	for id := range r.knownCounts {
		ids = append(ids, id)
	}
	sort.Strings(ids)
	for _, id := range ids {
		what := r.knownWhat[id]
		for _, f := range ff.Findings {
			if f.ID == id {
				what = f.What
			}
		}
		fmt.Printf("KNOWN-FINDING: property=%s %s [%s] (%d failing observations in this run)\n", propID, what, id, r.knownCounts[id])
	}
	for _, n := range r.notes {
		fmt.Println("note:", n)
	}
	for _, v := range r.violations {
		fmt.Printf("VIOLATION property=%s replay=%s\n", propID, v.Replay)
		fmt.Printf("  what: %s\n", v.What)
	}
	r.writeEvidence()
	fmt.Printf("%s %s seed=%d: evaluations=%d distinct_nontrivial=%d violations=%d known=%d wall=%.1fs\n",
		propID, tier, seed, r.evals, len(r.distinct), r.vioCount, len(r.knownCounts), time.Since(startTime).Seconds())
	if len(r.violations) > 0 {
		os.RemoveAll(workRoot())
		os.Exit(1)
	}
}

func (r *Reporter) writeEvidence() {
	if len(propID) < 2 || propID[0] != 'C' || propID[1] < '0' || propID[1] > '9' {
		return // triage aids and selftest write no evidence
	}
	cov := map[string]any{}
	for k, v := range r.Cov {
		cov[k] = v
	}
	cov["evaluations"] = r.evals
	cov["distinct_nontrivial"] = len(r.distinct)
	if len(r.samples) == 0 {
		r.samples = append(r.samples, "no case reached the sampler")
	}
	cov["samples"] = r.samples
	known := map[string]int{}
	for k, v := range r.knownCounts {
		known[k] = v
	}
	cov["known_finding_observations"] = known
	if r.knownCfg != nil {
		cov["known_finding_configurations"] = r.knownCfg
	}
	if r.Assumptions == nil {
		r.Assumptions = []string{"bounded exploration: nothing outside the stated bounds is covered"}
	}
	ev := map[string]any{
		"property_id": propID,
		"tier":        tier,
		"seed":        seed,
		"level":       r.Level,
		"coverage":    cov,
		"assumptions": r.Assumptions,
		"wall_s":      time.Since(startTime).Seconds(),
		"violations":  r.vioCount,
	}
	if ev["assumptions"] == nil {
		ev["assumptions"] = []string{}
	}
	evDir := "/verif/evidence"
	if o := os.Getenv("VERIF_OUT_DIR"); o != "" {
		evDir = filepath.Join(o, "evidence") // triage runs against another checkout never touch the real evidence
	}
	_ = os.MkdirAll(evDir, 0o755)
	b, _ := json.MarshalIndent(ev, "", " ")
	_ = os.WriteFile(filepath.Join(evDir, propID+".json"), b, 0o644)
}

// addTLC accumulates TLC statistics into the coverage record.
func (r *Reporter) addTLC(st TLCStats) {
	r.mu.Lock()
	defer r.mu.Unlock()
	add := func(k string, v int64) {
		cur, _ := r.Cov[k].(int64)
		r.Cov[k] = cur + v
	}
	r.notes = append(r.notes, fmt.Sprintf("tlc run: %d distinct states, %d json lines, %.1fs", st.Distinct, st.Lines, st.WallS))
	add("states", st.Distinct)
	add("transitions", st.Generated)
	add("tlc_json_cases", st.Lines)
}

// countObs counts one (case, configuration) observation and whether it lies in the
// envelope (no listed finding class masks it for this property and configuration).
func (r *Reporter) countObs(inEnvelope bool) {
	r.mu.Lock()
	t, _ := r.Cov["observations"].(int64)
	r.Cov["observations"] = t + 1
	if inEnvelope {
		e, _ := r.Cov["observations_in_envelope"].(int64)
		r.Cov["observations_in_envelope"] = e + 1
	}
	r.mu.Unlock()
}

func (r *Reporter) addTraces(n int64) {
	r.mu.Lock()
	cur, _ := r.Cov["traces_validated_against_impl"].(int64)
	r.Cov["traces_validated_against_impl"] = cur + n
	r.mu.Unlock()
}

// parallel runs f over items with 16 workers.
func parallel[T any](items <-chan T, workers int, f func(T)) {
	var wg sync.WaitGroup
	for w := 0; w < workers; w++ {
		wg.Add(1)
		go func() {
			defer wg.Done()
			for it := range items {
				f(it)
			}
		}()
	}
	wg.Wait()
}
