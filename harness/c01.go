package main

import (
	"fmt"
	"os"
	"strings"
)

// famRun describes one TLC invocation of a program family.
type famRun struct {
	Module   string
	Consts   string // CONSTANTS block body
	Simulate string
	Depth    int
	SeedOff  int64
}

func famCfg(consts string) string {
	return "INIT Init\nNEXT Next\nINVARIANT Emit\nCONSTANTS\n" + consts
}

// judge is called for every failing observation; it returns true when the
// failure is inside the property's scope (so it must be a violation or a known finding).
type judgeFn func(c *ProgCase, o Obs) (inScope bool, what string)

// runFamily streams the cases of the given TLC runs through the configurations
// and reports every failing observation through judge.
func runFamily(r *Reporter, prop string, runs []famRun, configs func(c *ProgCase) []Config, nontrivial func(c *ProgCase) bool, judge judgeFn) {
	verbose := os.Getenv("VERIF_VERBOSE") != ""
	if sel := os.Getenv("VERIF_RUNS"); sel != "" { // debugging aid: restrict to one TLC run of the family
		var idx int
		fmt.Sscan(sel, &idx)
		if idx < len(runs) {
			runs = runs[idx : idx+1]
		}
	}
	for _, fr := range runs {
		o := TLCOpts{Module: fr.Module, Cfg: famCfg(fr.Consts), Simulate: fr.Simulate, Depth: fr.Depth, Seed: seed*1000 + fr.SeedOff}
		st := streamCases(r, o, 16, func(c *ProgCase) {
			r.Eval(c.Key(), nontrivial == nil || nontrivial(c))
			r.Sample(map[string]any{"family": c.Fam, "program": oneLine(c.Prog), "regs0": c.Regs0, "img": c.Img, "expected_regs": c.Exp.Regs, "expected_status": c.Exp.Status, "tags": c.Tags})
			for _, cfg := range configs(c) {
				obs := Observe(c, cfg)
				r.addTraces(1)
				r.countObs(matchFinding(prop, c.TagsFor(cfg, nil), &cfg, "") == "")
				if obs.Symptom() == "" {
					continue
				}
				inScope, what := judge(c, obs)
				if os.Getenv("VERIF_VERBOSE") == "2" {
					fmt.Printf("OBS %s on %s: scope=%v %s | %s\n", oneLine(c.Prog), cfg, inScope, obs.Describe(), what)
				}
				if !inScope {
					continue
				}
				sym := obs.Symptom()
				desc := fmt.Sprintf("%s on %s: %s [%s]", oneLine(c.Prog), cfg, what, strings.Join(c.TagsFor(cfg, &obs), ","))
				if id := matchFinding(prop, c.TagsFor(cfg, &obs), &cfg, sym); id != "" {
					r.KnownOn(id, cfg.String(), desc)
					continue
				}
				if verbose {
					fmt.Printf("FAIL %s | regs0=%s img=%s\n", desc, fmtRegs(c.Regs0), c.Img)
				}
				cluster := fmt.Sprintf("%s|%s|%s", c.Fam, cfg.Variant, sym)
				cc, oo := c, obs
				r.ViolateMin(cluster, len(c.Prog)*100+cfg.Par, desc, func() any { return cc.Replay(oo.Cfg, oo) })
			}
		})
		if st.Lines == 0 {
			inconclusive("%s generated no case", fr.Module)
		}
	}
}

func allCfgs(*ProgCase) []Config { return AllConfigs() }

func generalRuns() []famRun {
	if tier == "thorough" {
		return []famRun{
			{Module: "General", Consts: " MaxLen = 3\n MinLen = 1\n Fuel = 64\n ImageSet = \"two\"\n Alphabet = \"full\"\n"},
			{Module: "General", Consts: " MaxLen = 4\n MinLen = 4\n Fuel = 64\n ImageSet = \"one\"\n Alphabet = \"alu\"\n"},
			{Module: "General", Consts: " MaxLen = 4\n MinLen = 4\n Fuel = 64\n ImageSet = \"one\"\n Alphabet = \"mem\"\n"},
			{Module: "General", Consts: " MaxLen = 4\n MinLen = 4\n Fuel = 64\n ImageSet = \"one\"\n Alphabet = \"ctl\"\n"},
			{Module: "General", Consts: " MaxLen = 32\n MinLen = 8\n Fuel = 300\n ImageSet = \"three\"\n Alphabet = \"loop\"\n", Simulate: "num=600", Depth: 36, SeedOff: 1}, // TLC's simulator is single-threaded and the class predicates are quadratic in the run length
		}
	}
	return []famRun{
		{Module: "General", Consts: " MaxLen = 2\n MinLen = 1\n Fuel = 64\n ImageSet = \"two\"\n Alphabet = \"full\"\n"},
		{Module: "General", Consts: " MaxLen = 3\n MinLen = 3\n Fuel = 64\n ImageSet = \"one\"\n Alphabet = \"alu\"\n"},
		{Module: "General", Consts: " MaxLen = 3\n MinLen = 3\n Fuel = 64\n ImageSet = \"one\"\n Alphabet = \"mem\"\n"},
		{Module: "General", Consts: " MaxLen = 3\n MinLen = 3\n Fuel = 64\n ImageSet = \"one\"\n Alphabet = \"ctl\"\n"},
		{Module: "General", Consts: " MaxLen = 24\n MinLen = 6\n Fuel = 400\n ImageSet = \"three\"\n Alphabet = \"loop\"\n", Simulate: "num=150", Depth: 28, SeedOff: 1},
	}
}

func init() {
	register("C01", func(r *Reporter) {
		r.Level = "model_checking"
		r.Cov["rule"] = "TLC enumerates every program of the General family up to the length bound (exhaustive BFS over the template alphabet x initial images) and simulates longer programs with counted loops (seeded); each program is run on all 33 configurations (12 variants x parallelism 1..4) and the whole final register file and memory are compared with the final state of the sequential specification (RV32!Step); plus the Call and LineFill families and the Repo family (the repository's array-sum, bubble-sort, string-copy, string-length and prime-number programs transcribed to the abstract form, run from many more inputs than the suite uses, whole final state compared). A case is distinct by (program text, initial registers, image); all are non-trivial except programs that execute fewer than 2 instructions"
		r.Assumptions = []string{"programs longer than the bounds are sampled only", "RV32.tla is the reference for the sequential result"}
		runFamily(r, "C01", append(generalRuns(), famRunOf("Call", sizeForTier()), famRunOf("LineFill", sizeForTier()), famRunOf("Repo", sizeForTier()), famRunOf("FarChain", "small"), famRunOf("FarBack", "small"), famRunOf("EndAt", "small"), famRunOf("RegDep", "small")), allCfgs, func(c *ProgCase) bool { return c.Exp.N >= 2 }, func(c *ProgCase, o Obs) (bool, string) {
			return true, o.Describe()
		})
	})
}
