package main

import (
	"encoding/json"
	"fmt"

	kv "github.com/teivah/majorana/common/cache"
	"github.com/teivah/majorana/proc/comp"
)

type lcLine struct {
	Base int   `json:"base"`
	Data []int `json:"data"`
}

type lcStep struct {
	Op      string `json:"op"`
	A       int    `json:"a"`
	D       []int  `json:"d"`
	Ok      bool   `json:"ok"`
	Ret     []int  `json:"ret"`
	Bases   []int  `json:"bases"`
	Touched []int  `json:"touched"`
}

type lcHist struct {
	Geom  []int    `json:"geom"`
	Hist  []lcStep `json:"hist"`
	Final []lcLine `json:"final"`
}

func i8s(xs []int) []int8 {
	out := make([]int8, len(xs))
	for i, x := range xs {
		out[i] = int8(byte(x))
	}
	return out
}

func eqI8(got []int8, want []int) bool {
	if len(got) != len(want) {
		return false
	}
	for i := range got {
		if got[i] != int8(byte(want[i])) {
			return false
		}
	}
	return true
}

func sameLines(got []comp.Line, want []lcLine, lineLen int) string {
	if len(got) != len(want) {
		return fmt.Sprintf("%d resident lines, want %d", len(got), len(want))
	}
	for i := range got {
		if int(got[i].Boundary[0]) != want[i].Base || int(got[i].Boundary[1]) != want[i].Base+lineLen {
			return fmt.Sprintf("line %d has boundary %v, want base %d", i, got[i].Boundary, want[i].Base)
		}
		if !eqI8(got[i].Data, want[i].Data) {
			return fmt.Sprintf("line %d (base %d) holds %v, want %v", i, want[i].Base, got[i].Data, want[i].Data)
		}
	}
	return ""
}

// replayLineCache steps one history through comp.LRUCache; it returns (category, detail, step) of the first mismatch.
func replayLineCache(h lcHist) (cat, detail string, step int) {
	defer func() {
		if p := recover(); p != nil {
			cat, detail = "panic", fmt.Sprint(p)
		}
	}()
	lineLen, numLines := h.Geom[0], h.Geom[1]
	c := comp.NewLRUCache(lineLen, lineLen*numLines)
	for k, s := range h.Hist {
		step = k
		switch s.Op {
		case "Get":
			v, ok := c.Get(int32(s.A))
			if ok != s.Ok || (ok && int8(byte(s.Ret[0])) != v) {
				return "get", fmt.Sprintf("Get(%d) = (%d,%v), want (%v,%v)", s.A, v, ok, s.Ret, s.Ok), k
			}
		case "GetLine":
			d, ok := c.GetCacheLine(comp.AlignedAddress(s.A))
			if ok != s.Ok || (ok && !eqI8(d, s.Ret)) {
				return "getline", fmt.Sprintf("GetCacheLine(%d) = (%v,%v), want (%v,%v)", s.A, d, ok, s.Ret, s.Ok), k
			}
		case "GetSub":
			sub := lineLen / 2
			base, d, ok := c.GetSubCacheLine([]int32{int32(s.A)}, int32(sub))
			if ok != s.Ok || (ok && (int(base) != s.Ret[0] || !eqI8(d, s.Ret[1:]))) {
				return "getsub", fmt.Sprintf("GetSubCacheLine(%d,%d) = (%d,%v,%v), want (%v,%v)", s.A, sub, base, d, ok, s.Ret, s.Ok), k
			}
		case "Evict":
			d, ok := c.EvictCacheLine(comp.AlignedAddress(s.A))
			if ok != s.Ok || (ok && !eqI8(d, s.Ret)) {
				return "evict", fmt.Sprintf("EvictCacheLine(%d) = (%v,%v), want (%v,%v)", s.A, d, ok, s.Ret, s.Ok), k
			}
		case "Write":
			c.Write(int32(s.A), i8s(s.D))
		case "Push":
			ev := c.PushLine(comp.AlignedAddress(s.A), i8s(s.D))
			if (len(ev) != 0) != s.Ok {
				return "pushvictim", fmt.Sprintf("PushLine(%d) reports victim=%v, want %v", s.A, len(ev) != 0, s.Ok), k
			}
			if s.Ok && !eqI8(ev, s.Ret) {
				return "pushdata", fmt.Sprintf("PushLine(%d) reports victim contents %v, want %v (the displaced least-recently-used line)", s.A, ev, s.Ret), k
			}
		case "PushW":
			v := c.PushLineWithEvictionWarning(comp.AlignedAddress(s.A), i8s(s.D))
			if (v != nil) != s.Ok {
				return "pushwvictim", fmt.Sprintf("PushLineWithEvictionWarning(%d) reports victim=%v, want %v", s.A, v != nil, s.Ok), k
			}
			if s.Ok && (int(v.Boundary[0]) != s.Ret[0] || !eqI8(v.Data, s.Ret[1:])) {
				return "pushwdata", fmt.Sprintf("PushLineWithEvictionWarning(%d) reports victim base %d %v, want %v", s.A, v.Boundary[0], v.Data, s.Ret), k
			}
		default:
			return "spec", "unknown op " + s.Op, k
		}
		got := c.Lines()
		if len(got) != len(s.Bases) {
			return "state", fmt.Sprintf("after %s(%d): %d resident lines, want %d (bases %v)", s.Op, s.A, len(got), len(s.Bases), s.Bases), k
		}
		for i := range got {
			if int(got[i].Boundary[0]) != s.Bases[i] || int(got[i].Boundary[1]) != s.Bases[i]+lineLen {
				return "state", fmt.Sprintf("after %s(%d): line %d has boundary %v, want base %d (recency order %v)", s.Op, s.A, i, got[i].Boundary, s.Bases[i], s.Bases), k
			}
		}
		if len(s.Touched) > 0 {
			if d, ok := c.GetCacheLine(comp.AlignedAddress(s.A)); !ok || !eqI8(d, s.Touched) {
				return "state", fmt.Sprintf("after %s(%d): covering line holds %v, want %v", s.Op, s.A, d, s.Touched), k
			}
		}
		n := len(s.Bases)
		if n > numLines {
			n = numLines
		}
		if ex := c.ExistingLines(); len(ex) != n {
			return "existing", fmt.Sprintf("ExistingLines after %s(%d) has %d lines, want %d", s.Op, s.A, len(ex), n), k
		}
	}
	if d := sameLines(c.Lines(), h.Final, lineLen); d != "" {
		return "state", "final state: " + d, len(h.Hist)
	}
	return "", "", 0
}

type kvStep struct {
	Op    string `json:"op"`
	K     int    `json:"k"`
	Ks    []int  `json:"ks"`
	Ok    bool   `json:"ok"`
	Ret   int    `json:"ret"`
	Order []int  `json:"order"`
}
type kvHist struct {
	Cap  int      `json:"cap"`
	Hist []kvStep `json:"hist"`
}

// replayKV steps one history through common/cache.LRUCache. The order is not
// exported, so it is observed through behaviour: after the history, the harness
// probes the recency order with Find on all keys (which the spec also predicts).
func replayKV(h kvHist, allKeys []int) (cat, detail string, step int) {
	defer func() {
		if p := recover(); p != nil {
			cat, detail = "panic", fmt.Sprint(p)
		}
	}()
	c := kv.NewLRUCache[int, int](h.Cap)
	var order []int
	for k, s := range h.Hist {
		step = k
		switch s.Op {
		case "Get":
			v, ok := c.Get(s.K)
			if ok != s.Ok || (ok && v != s.Ret) {
				return "kvget", fmt.Sprintf("Get(%d) = (%d,%v), want (%d,%v)", s.K, v, ok, s.Ret, s.Ok), k
			}
		case "Put":
			c.Put(s.K, s.Ret)
		case "Find":
			got, ok := c.Find(s.Ks)
			if ok != s.Ok || (ok && got != s.Ret) {
				return "kvfind", fmt.Sprintf("Find(%v) = (%d,%v), want (%d,%v)", s.Ks, got, ok, s.Ret, s.Ok), k
			}
		}
		order = s.Order
	}
	// probe: presence of every key, then drain the order with Find(all keys)
	present := map[int]bool{}
	for _, k := range order {
		present[k] = true
	}
	// Find(all) must return the LRU key, which then becomes MRU: |order| calls enumerate the order
	for i := 0; i < len(order); i++ {
		got, ok := c.Find(allKeys)
		if !ok || got != order[i] {
			return "kvorder", fmt.Sprintf("probe %d: Find(all) = (%d,%v), want %d (recency order %v)", i, got, ok, order[i], order), len(h.Hist)
		}
	}
	for _, k := range allKeys {
		if _, ok := c.Get(k); ok != present[k] {
			return "kvpresence", fmt.Sprintf("key %d present=%v, want %v (order %v)", k, ok, present[k], order), len(h.Hist)
		}
	}
	return "", "", 0
}

func init() {
	register("C13", func(r *Reporter) {
		r.Level = "model_checking"
		r.Cov["rule"] = "TLC enumerates every history of length K of spec/LineCache.tla (one action per exported method of comp.LRUCache, small geometries) and of spec/KVLru.tla, checks the C13 clauses as invariants on the model, and simulates long histories on the 64B/1KB and 128B/4KB geometries; each history is replayed on a fresh object and after every call the return value and the complete resident-line list (Lines, ExistingLines) are compared. A history is distinct by its op sequence; non-trivial = contains at least one insertion"
		r.Assumptions = []string{"histories respect the model's preconditions (aligned bases, push only on a miss, push only while at most NumLines lines are resident, writes inside a resident line)"}
		type run struct {
			consts   string
			simulate string
			depth    int
		}
		var runs []run
		if tier == "thorough" {
			runs = []run{
				{" LineLen = 2\n NumLines = 2\n Bases = {0,2,4}\n K = 4\n Sample = 0\n", "", 0},
				{" LineLen = 2\n NumLines = 3\n Bases = {0,2,4,6}\n K = 3\n Sample = 0\n", "", 0},
				{" LineLen = 4\n NumLines = 1\n Bases = {0,4}\n K = 4\n Sample = 0\n", "", 0},
				{" LineLen = 64\n NumLines = 16\n Bases = {0,64,128,192,256,320,384,448,512,576,640,704,768,832,896,960,1024,1088,1152,1216}\n K = 120\n Sample = 2\n", "num=400", 121},
				{" LineLen = 128\n NumLines = 32\n Bases = {0,128,256,384,512,640,768,896,1024,1152,1280,1408,1536,1664,1792,1920,2048,2176,2304,2432,2560,2688,2816,2944,3072,3200,3328,3456,3584,3712,3840,3968,4096,4224,4352,4480}\n K = 200\n Sample = 2\n", "num=200", 201},
			}
		} else {
			runs = []run{
				{" LineLen = 2\n NumLines = 2\n Bases = {0,2,4}\n K = 3\n Sample = 0\n", "", 0},
				{" LineLen = 4\n NumLines = 1\n Bases = {0,4}\n K = 3\n Sample = 0\n", "", 0},
				{" LineLen = 64\n NumLines = 16\n Bases = {0,64,128,192,256,320,384,448,512,576,640,704,768,832,896,960,1024,1088,1152,1216}\n K = 80\n Sample = 2\n", "num=60", 81},
				{" LineLen = 128\n NumLines = 32\n Bases = {0,128,256,384,512,640,768,896,1024,1152,1280,1408,1536,1664,1792,1920,2048,2176,2304,2432,2560,2688,2816,2944,3072,3200,3328,3456,3584,3712,3840,3968,4096,4224,4352,4480}\n K = 100\n Sample = 2\n", "num=30", 101},
			}
		}
		report := func(cat, detail string, step int, replay any, size int) {
			tag := "cache:" + cat
			if id := matchFinding("C13", []string{tag}, nil, cat); id != "" {
				r.Known(id, detail)
				return
			}
			r.ViolateMin(tag, size, fmt.Sprintf("step %d: %s", step, detail), func() any { return replay })
		}
		for i, ru := range runs {
			cfg := "INIT Init\nNEXT Next\nINVARIANTS Emit NoOverlap Bounded VictimIsLRU ReadYourWrites\nCONSTANTS\n" + ru.consts
			ch := make(chan lcHist, 256)
			done := make(chan struct{})
			go func() {
				parallel(ch, 8, func(h lcHist) {
					key := ""
					ins := false
					for _, s := range h.Hist {
						key += fmt.Sprintf("%s%d,", s.Op, s.A)
						if s.Op == "Push" || s.Op == "PushW" {
							ins = true
						}
					}
					r.Eval(hashKey(fmt.Sprint(h.Geom), key), ins)
					if cat, detail, step := replayLineCache(h); cat != "" {
						report(cat, detail, step, h, len(h.Hist)*1000+step)
					}
					if ins {
						ops := []string{}
						for _, s := range h.Hist {
							if len(ops) < 12 {
								ops = append(ops, fmt.Sprintf("%s(%d)->%v,%v", s.Op, s.A, s.Ok, s.Ret))
							}
						}
						r.Sample(map[string]any{"geometry": h.Geom, "history": ops})
					}
				})
				close(done)
			}()
			st, err := RunTLC(TLCOpts{Module: "LineCache", Cfg: cfg, Simulate: ru.simulate, Depth: ru.depth, Seed: seed*100 + int64(i)}, func(raw []byte) {
				var h lcHist
				if err := json.Unmarshal(raw, &h); err != nil {
					inconclusive("bad history: %v", err)
				}
				ch <- h
			})
			close(ch)
			<-done
			if err != nil {
				inconclusive("TLC LineCache: %v", err)
			}
			if st.Violated != "" {
				inconclusive("the LineCache model violates its own invariant %s: %s", st.Violated, tail(st.Output, 20))
			}
			r.addTLC(st)
			r.addTraces(st.Lines)
		}
		// key-value LRU
		k := 5
		if tier == "thorough" {
			k = 6
		}
		for _, capa := range []int{1, 2, 3} {
			cfg := fmt.Sprintf("INIT Init\nNEXT Next\nINVARIANTS Emit NoDup WithinCap\nCONSTANTS\n Keys = {0,1,2}\n Cap = %d\n K = %d\n", capa, k-1+capa/3)
			ch := make(chan kvHist, 256)
			done := make(chan struct{})
			go func() {
				parallel(ch, 8, func(h kvHist) {
					key := ""
					for _, s := range h.Hist {
						key += fmt.Sprintf("%s%d%v,", s.Op, s.K, s.Ks)
					}
					r.Eval(hashKey("kv", fmt.Sprint(h.Cap), key), true)
					if cat, detail, step := replayKV(h, []int{0, 1, 2}); cat != "" {
						report(cat, detail, step, h, len(h.Hist))
					}
				})
				close(done)
			}()
			st, err := RunTLC(TLCOpts{Module: "KVLru", Cfg: cfg}, func(raw []byte) {
				var h kvHist
				if err := json.Unmarshal(raw, &h); err != nil {
					inconclusive("bad kv history: %v", err)
				}
				ch <- h
			})
			close(ch)
			<-done
			if err != nil {
				inconclusive("TLC KVLru: %v", err)
			}
			if st.Violated != "" {
				inconclusive("the KVLru model violates its own invariant %s", st.Violated)
			}
			r.addTLC(st)
			r.addTraces(st.Lines)
		}
	})
}
