package main

import (
	"encoding/json"
	"fmt"
	"math/rand"
	"sync"
	"sync/atomic"

	mbytes "github.com/teivah/majorana/common/bytes"
)

type codecCase struct {
	Kind  string `json:"kind"`
	Pos   int    `json:"pos"`
	V     int    `json:"v"`
	Word  int32  `json:"word"`
	Bytes []int8 `json:"bytes"`
}

func init() {
	register("C16", func(r *Reporter) {
		r.Level = "model_checking"
		r.Assumptions = []string{"the composition of a 32-bit expectation from the four per-byte table entries (TLC-checked lemma of spec/Codec.tla) is trusted"}
		var splitTab [4][256]int8 // byte i of Split(word with v at position i)
		var joinTab [4][256]int32 // Join of v at position i
		var haveTab [4][256]bool
		var words []codecCase
		cfg := "INIT Init\nNEXT Next\nINVARIANT Emit\n"
		st, err := RunTLC(TLCOpts{Module: "Codec", Cfg: cfg}, func(raw []byte) {
			var c codecCase
			if err := json.Unmarshal(raw, &c); err != nil || len(c.Bytes) != 4 {
				inconclusive("bad codec case: %v %s", err, raw)
			}
			if c.Kind == "tab" {
				splitTab[c.Pos][c.V] = c.Bytes[c.Pos]
				joinTab[c.Pos][c.V] = c.Word
				haveTab[c.Pos][c.V] = true
			}
			words = append(words, c)
		})
		if err != nil {
			inconclusive("TLC failed: %v", err)
		}
		r.addTLC(st)
		for i := 0; i < 4; i++ {
			for v := 0; v < 256; v++ {
				if !haveTab[i][v] {
					inconclusive("table entry %d/%d missing", i, v)
				}
			}
		}
		check := func(w int32, want [4]int8, origin string) {
			got := mbytes.BytesFromLowBits(w)
			if got != want {
				key := "split"
				what := fmt.Sprintf("BytesFromLowBits(%d) = %v, want %v (%s)", w, got, want, origin)
				if id := matchFinding("C16", []string{"codec:split"}, nil, "value"); id != "" {
					r.Known(id, what)
				} else {
					r.Violate(hashKey(key), what, map[string]any{"word": w, "want": want, "got": got})
				}
			}
			back := mbytes.I32FromBytes(want[0], want[1], want[2], want[3])
			if back != w {
				what := fmt.Sprintf("I32FromBytes(%v) = %d, want %d (%s)", want, back, w, origin)
				if id := matchFinding("C16", []string{"codec:join"}, nil, "value"); id != "" {
					r.Known(id, what)
				} else {
					r.Violate(hashKey("join"), what, map[string]any{"bytes": want, "want": w, "got": back})
				}
			}
		}
		for _, c := range words {
			var want [4]int8
			copy(want[:], c.Bytes)
			check(c.Word, want, "TLC case "+c.Kind)
			r.Eval(fmt.Sprint("w", c.Word), true)
			if c.Kind == "word" {
				r.Sample(map[string]any{"word": c.Word, "bytes": c.Bytes})
			}
		}
		r.addTraces(int64(len(words)))
		compose := func(w uint32) [4]int8 {
			return [4]int8{splitTab[0][w&255], splitTab[1][(w>>8)&255], splitTab[2][(w>>16)&255], splitTab[3][(w>>24)&255]}
		}
		composeJoin := func(b [4]int8) int32 {
			return joinTab[0][uint8(b[0])] + joinTab[1][uint8(b[1])] + joinTab[2][uint8(b[2])] + joinTab[3][uint8(b[3])]
		}
		var swept int64
		if tier == "thorough" {
			// all 2^32 words and all 2^32 byte quadruples
			var wg sync.WaitGroup
			var bad atomic.Int64
			const chunks = 256
			ch := make(chan uint32, chunks)
			for k := 0; k < chunks; k++ {
				ch <- uint32(k)
			}
			close(ch)
			for wk := 0; wk < 16; wk++ {
				wg.Add(1)
				go func() {
					defer wg.Done()
					for k := range ch {
						base := k << 24
						for lo := uint32(0); lo < 1<<24; lo++ {
							w := base | lo
							want := compose(w)
							if mbytes.BytesFromLowBits(int32(w)) != want || mbytes.I32FromBytes(want[0], want[1], want[2], want[3]) != composeJoin(want) || composeJoin(want) != int32(w) {
								if bad.Add(1) < 5 {
									check(int32(w), want, "full sweep")
								}
							}
						}
					}
				}()
			}
			wg.Wait()
			swept = 1 << 32
			r.Cov["exhaustive"] = true
			r.Cov["full_domain_sweep"] = true
		} else {
			rng := rand.New(rand.NewSource(seed))
			n := 1000000
			for k := 0; k < n; k++ {
				w := rng.Uint32()
				check(int32(w), compose(w), "seeded sample")
			}
			swept = int64(n)
			r.Cov["exhaustive"] = false
		}
		r.mu.Lock()
		r.evals += swept
		r.mu.Unlock()
		r.Cov["words_swept"] = swept
		r.Cov["rule"] = "TLC emits the 4x256 per-byte tables of Split/Join (exhaustive), the boundary lattice and all words with <= 2 bits set; each is replayed on BytesFromLowBits and I32FromBytes in both directions; then the harness sweeps words (quick: 10^6 seeded; thorough: all 2^32) against expectations composed from the tables. distinct_nontrivial counts the distinct TLC-emitted words only"
	})
}
