package main

import (
	"fmt"
	"strings"
)

// `verif pipe`: design-level exploration of spec/Pipe.tla. For every bundled
// program TLC checks the refinement to the sequential machine under (a) the
// repaired design (every flag TRUE) and (b) the flag settings that describe
// each multi-issue variant as coded. The counter-examples of (b) are the
// design-level form of the recorded findings; they are predictions, searched
// for on the real code by the program families (the witnesses of
// known_findings.json are exactly these programs).
func init() {
	register("pipe", func(r *Reporter) {
		progs := []string{"ret_after_load", "code_after_ret", "load_then_jump", "waw", "raw_chain", "shadow_store", "slow_branch_shadow"}
		type fl struct {
			name                               string
			ren, ino, retd, keep, stop, commit string
		}
		sets := []fl{
			{"repaired", "TRUE", "TRUE", "TRUE", "TRUE", "TRUE", "TRUE"},
			{"mvp6-0 as coded", "FALSE", "FALSE", "FALSE", "FALSE", "FALSE", "FALSE"},
			{"mvp6-1 as coded", "FALSE", "FALSE", "FALSE", "TRUE", "FALSE", "FALSE"},
			{"mvp6-2 as coded", "FALSE", "FALSE", "FALSE", "TRUE", "FALSE", "TRUE"},
			{"mvp6-3/7.x as coded", "TRUE", "FALSE", "FALSE", "TRUE", "FALSE", "TRUE"},
		}
		bad := 0
		for _, s := range sets {
			var row []string
			for _, p := range progs {
				cfg := fmt.Sprintf("SPECIFICATION Spec\nINVARIANTS Refines NoWrongPath NoDeadlock\nPROPERTY Terminates\nCONSTANTS\n Units = 3\n Prog = \"%s\"\n Renaming = %s\n InOrderCommit = %s\n RetDrains = %s\n FlushKeepsOlder = %s\n FetchStopsAtRet = %s\n Speculate = TRUE\n CommitAfterResolve = %s\n",
					p, s.ren, s.ino, s.retd, s.keep, s.stop, s.commit)
				st, err := RunTLC(TLCOpts{Module: "Pipe", Cfg: cfg, Workers: 2, CheckDeadlock: true}, nil)
				if err != nil {
					inconclusive("TLC Pipe: %v", err)
				}
				r.addTLC(st)
				res := "holds"
				if st.Violated != "" {
					res = "violates " + st.Violated
					if s.name == "repaired" {
						bad++
					}
				}
				row = append(row, fmt.Sprintf("%s: %s", p, res))
			}
			fmt.Printf("[%s]\n  %s\n", s.name, strings.Join(row, "\n  "))
		}
		if bad > 0 {
			inconclusive("the repaired pipeline design violates its refinement on %d programs", bad)
		}
		r.Eval("a", true)
		r.Eval("b", true)
	})
}
