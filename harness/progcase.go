package main

import (
	"encoding/json"
	"fmt"
	"sort"
	"strconv"
	"strings"

	"github.com/teivah/majorana/risc"
)

// ProgCase is one case emitted by a program-family generator (spec/ProgCommon!CaseRec).
type ProgCase struct {
	Fam     string           `json:"fam"`
	Prog    []Ins            `json:"prog"`
	Regs0   map[string]int32 `json:"regs0"`
	Img     string           `json:"img"`
	MemSize int              `json:"memSize"`
	Mem0    sparseMem        `json:"mem0"`
	Exp     struct {
		Status string           `json:"status"`
		Regs   map[string]int32 `json:"regs"`
		Mem    sparseMem        `json:"mem"`
		N      int              `json:"n"`
		Cyc1   int              `json:"cyc1"`
		Cyc2   int              `json:"cyc2"`
		Cyc3   int              `json:"cyc3"`
		Cyc4   int              `json:"cyc4"` // spec/Mvp4 cycle-accurate model; -1 = not evaluated
		Cyc5   int              `json:"cyc5"` // the same model with the branch target buffer of MVP-5
		Pcs    []int            `json:"pcs"`
		Addrs  []int            `json:"addrs"`
	} `json:"exp"`
	// Model45: the cycle-accurate model spec/Mvp4 was evaluated for this case; Alt4/Alt5: the final state
	// MVP-4 / MVP-5 reach as coded when the final ret drops queued write-backs (finding F09a), Lost = the
	// executed instructions whose write-back is dropped (empty: the model predicts the sequential state).
	Model45    bool            `json:"model45"`
	Alt4       AltState        `json:"alt4"`
	Alt5       AltState        `json:"alt5"`
	FocusRegs  []string        `json:"focusRegs"`
	FocusAddrs []int           `json:"focusAddrs"`
	Tags       []string        `json:"tags"`
	Extra      json.RawMessage `json:"extra"`
}

type AltState struct {
	Lost []int            `json:"lost"`
	Regs map[string]int32 `json:"regs"`
	Mem  sparseMem        `json:"mem"`
}

// TagsFor returns the finding-class tags of the case as they apply to one configuration and (if given)
// one observation.  For MVP-4/5 cases evaluated by the cycle-accurate model the coarse class
// ret_after_store_miss is withdrawn: the model says exactly which write-backs the final ret drops, and
// only an observation equal to that predicted state carries the tag mvp45_lost_writeback.
func (c *ProgCase) TagsFor(cfg Config, o *Obs) []string {
	if !c.Model45 || (cfg.Variant != "mvp4" && cfg.Variant != "mvp5") {
		return c.Tags
	}
	var tags []string
	for _, t := range c.Tags {
		if t != "ret_after_store_miss" {
			tags = append(tags, t)
		}
	}
	alt := &c.Alt4
	if cfg.Variant == "mvp5" {
		alt = &c.Alt5
	}
	if len(alt.Lost) == 0 {
		return tags
	}
	if o == nil { // asking whether the case is inside the envelope on this configuration
		return append(tags, "mvp45_lost_writeback")
	}
	if o.Res.Failed() {
		return tags
	}
	for _, name := range regNames[1:] {
		if o.Res.Regs[name] != alt.Regs[name] {
			return tags
		}
	}
	for a := 0; a < c.MemSize; a++ {
		want := int8(ImgByte(c.Img, a))
		if b, ok := alt.Mem[a]; ok {
			want = int8(b)
		}
		if o.Res.Mem[a] != want {
			return tags
		}
	}
	return append(tags, "mvp45_lost_writeback")
}

// sparseMem decodes both {"64": 1, ...} (TLA+ function) and [] (empty sequence).
type sparseMem map[int]byte

func (m *sparseMem) UnmarshalJSON(b []byte) error {
	*m = sparseMem{}
	s := strings.TrimSpace(string(b))
	if strings.HasPrefix(s, "[") {
		var arr []int
		if err := json.Unmarshal(b, &arr); err != nil {
			return err
		}
		for i, v := range arr { // a TLA+ sequence: domain 1..n
			(*m)[i+1] = byte(v)
		}
		return nil
	}
	var o map[string]int
	if err := json.Unmarshal(b, &o); err != nil {
		return err
	}
	for k, v := range o {
		a, err := strconv.Atoi(k)
		if err != nil {
			return err
		}
		(*m)[a] = byte(v)
	}
	return nil
}

func (c *ProgCase) Init() InitState {
	in := InitState{Img: c.Img, MemSize: c.MemSize, Regs: c.Regs0}
	if len(c.Mem0) > 0 {
		in.MemInit = map[int]byte{}
		for a, b := range c.Mem0 {
			in.MemInit[a] = b
		}
	}
	return in
}

func (c *ProgCase) Text() string { return Render(c.Prog) }

func (c *ProgCase) Key() string {
	return hashKey(c.Fam, oneLine(c.Prog), fmtRegs(c.Regs0), c.Img, strconv.Itoa(c.MemSize), fmt.Sprint(len(c.Mem0)), string(c.Extra))
}

func (c *ProgCase) HasTag(t string) bool {
	for _, x := range c.Tags {
		if x == t {
			return true
		}
	}
	return false
}

func (c *ProgCase) wantMem(a int) int8 {
	if b, ok := c.Exp.Mem[a]; ok {
		return int8(b)
	}
	return int8(ImgByte(c.Img, a))
}

// Diff is one location where the observed final state differs from the sequential one.
type Diff struct {
	Kind string // "reg" | "mem"
	Loc  string
	Got  int32
	Want int32
}

func (d Diff) String() string {
	return fmt.Sprintf("%s %s = %d, want %d", d.Kind, d.Loc, d.Got, d.Want)
}

// Obs is the observation of one case on one configuration.
type Obs struct {
	Cfg   Config
	Res   RunResult
	Diffs []Diff
}

// Symptom classifies the observation: "" (agrees with the sequential machine),
// "hang", "blocked", "panic", "error", "value".
func (o Obs) Symptom() string {
	switch {
	case o.Res.Hang:
		return "hang"
	case o.Res.Blocked:
		return "blocked"
	case o.Res.Panic != "":
		return "panic"
	case o.Res.Err != "":
		return "error"
	case len(o.Diffs) > 0:
		return "value"
	}
	return ""
}

func (o Obs) Describe() string {
	s := o.Res.Outcome()
	if s == "ok" && len(o.Diffs) > 0 {
		ds := make([]string, 0, 3)
		for i, d := range o.Diffs {
			if i == 3 {
				ds = append(ds, fmt.Sprintf("... %d more", len(o.Diffs)-3))
				break
			}
			ds = append(ds, d.String())
		}
		s = strings.Join(ds, "; ")
	}
	return s
}

// Observe parses the program text afresh, runs it on cfg and compares the
// final registers and memory with the sequential expectation of the case.
func Observe(c *ProgCase, cfg Config) Obs {
	app, err := risc.Parse(c.Text())
	if err != nil {
		return Obs{Cfg: cfg, Res: RunResult{Err: "parse: " + err.Error()}}
	}
	return ObserveApp(c, cfg, app)
}

func ObserveApp(c *ProgCase, cfg Config, app risc.Application) Obs {
	res := RunApp(cfg, app, c.Init(), Budget(c.Exp.N, cfg.Par))
	o := Obs{Cfg: cfg, Res: res}
	if res.Failed() {
		return o
	}
	for _, name := range regNames[1:] {
		got := res.Regs[name]
		want := c.Exp.Regs[name]
		if got != want {
			o.Diffs = append(o.Diffs, Diff{"reg", name, got, want})
		}
	}
	for a := 0; a < c.MemSize; a++ {
		if got, want := res.Mem[a], c.wantMem(a); got != want {
			o.Diffs = append(o.Diffs, Diff{"mem", strconv.Itoa(a), int32(got), int32(want)})
			if len(o.Diffs) > 40 {
				break
			}
		}
	}
	return o
}

// InFocus reports whether the observation deviates inside the focus set of the case.
func (o Obs) InFocus(c *ProgCase) []Diff {
	var out []Diff
	fr := map[string]bool{}
	for _, r := range c.FocusRegs {
		fr[r] = true
	}
	fa := map[string]bool{}
	for _, a := range c.FocusAddrs {
		fa[strconv.Itoa(a)] = true
	}
	for _, d := range o.Diffs {
		if (d.Kind == "reg" && fr[d.Loc]) || (d.Kind == "mem" && fa[d.Loc]) {
			out = append(out, d)
		}
	}
	return out
}

func (c *ProgCase) Replay(cfg Config, o Obs) map[string]any {
	exp := map[string]any{"status": c.Exp.Status, "regs": c.Exp.Regs, "n": c.Exp.N}
	mem := map[string]int{}
	for a, b := range c.Exp.Mem {
		mem[strconv.Itoa(a)] = int(b)
	}
	exp["mem"] = mem
	return map[string]any{
		"family": c.Fam, "config": cfg.String(), "variant": cfg.Variant, "par": cfg.Par, "wu": cfg.WU,
		"program": strings.Split(strings.TrimSpace(c.Text()), "\n"), "prog": c.Prog,
		"regs0": c.Regs0, "img": c.Img, "memSize": c.MemSize, "expected": exp,
		"observed": map[string]any{"outcome": o.Res.Outcome(), "cycles": o.Res.Cycles, "regs": o.Res.Regs, "diffs": fmtDiffs(o.Diffs)},
		"tags":     c.Tags,
	}
}

func fmtDiffs(ds []Diff) []string {
	out := make([]string, 0, len(ds))
	for _, d := range ds {
		out = append(out, d.String())
	}
	sort.Strings(out)
	return out
}

// streamCases runs TLC on a family module and feeds decoded cases to workers.
func streamCases(r *Reporter, o TLCOpts, workers int, handle func(c *ProgCase)) TLCStats {
	ch := make(chan *ProgCase, 1024)
	done := make(chan struct{})
	go func() {
		parallel(ch, workers, handle)
		close(done)
	}()
	st, err := RunTLC(o, func(raw []byte) {
		c := new(ProgCase)
		if err := json.Unmarshal(raw, c); err != nil {
			inconclusive("bad case json: %v: %s", err, raw)
		}
		ch <- c
	})
	close(ch)
	<-done
	if err != nil {
		inconclusive("TLC failed on %s: %v", o.Module, err)
	}
	r.addTLC(st)
	return st
}
