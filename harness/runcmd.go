package main

import (
	"fmt"
	"os"
	"strconv"
	"strings"

	"github.com/teivah/majorana/risc"
)

// `verif run <variant> <par> "<asm; asm; ...>" [reg=val ...] [img=ramp] [mem=256]` runs one program
// on one configuration and prints the outcome (triage aid, not a check).
func init() {
	register("run", func(r *Reporter) {
		args := os.Args[2:]
		if len(args) < 3 {
			fmt.Println("usage: run <variant> <par> <program> [reg=val] [img=..] [mem=..]")
			os.Exit(2)
		}
		par, _ := strconv.Atoi(args[1])
		cfg := Config{Variant: args[0], Par: par}
		text := strings.ReplaceAll(args[2], ";", "\n")
		init := InitState{Img: "ramp", MemSize: 256, Regs: map[string]int32{}}
		for _, a := range args[3:] {
			k, v, _ := strings.Cut(a, "=")
			switch k {
			case "img":
				init.Img = v
			case "mem":
				init.MemSize, _ = strconv.Atoi(v)
			default:
				n, _ := strconv.ParseInt(v, 10, 64)
				init.Regs[k] = int32(n)
			}
		}
		app, err := risc.Parse(text)
		if err != nil {
			fmt.Println("parse error:", err)
			os.Exit(2)
		}
		res := RunApp(cfg, app, init, 3000000)
		fmt.Printf("%s: %s cycles=%d ticks=%d regs: %s\n", cfg, res.Outcome(), res.Cycles, res.Ticks, fmtRegs(res.Regs))
		var diffs []string
		for a := 0; a < init.MemSize && res.Mem != nil; a++ {
			if res.Mem[a] != int8(ImgByte(init.Img, a)) {
				diffs = append(diffs, fmt.Sprintf("%d:%d", a, res.Mem[a]))
			}
		}
		fmt.Println("mem changes:", strings.Join(diffs, " "))
		r.Eval("a", true)
		r.Eval("b", true)
		propID = "run"
	})
}

// `verif rig <variant> <cores> "R0@0:64 W1@5:64 F0@300:0"` runs one rig schedule (triage aid).
func init() {
	register("rig", func(r *Reporter) {
		args := os.Args[2:]
		cores, _ := strconv.Atoi(args[1])
		s := rigSchedule{Variant: args[0], Cores: cores}
		for _, f := range strings.Fields(args[2]) {
			var e rigEvent
			var addr int
			kind := f[:1]
			fmt.Sscanf(f[1:], "%d@%d:%d", &e.Core, &e.T, &addr)
			e.Kind, e.Addr = kind, int32(addr)
			s.Events = append(s.Events, e)
		}
		snaps, pm, stuck := runSchedule(s)
		fmt.Printf("%s: snapshots=%d panic=%q stuck=%v\n", s.String(), len(snaps), pm, stuck)
		n := len(snaps)
		first := n - 3
		if os.Getenv("VERIF_VERBOSE") != "" {
			first = 0
		}
		for i := first; i < n; i++ {
			if i >= 0 {
				fmt.Println(string(snaps[i]))
			}
		}
		r.Eval("a", true)
		r.Eval("b", true)
		propID = "run"
	})
}
