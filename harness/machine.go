package main

import (
	"fmt"
	"sort"
	"strings"
	"sync/atomic"
	"time"

	mvp1 "github.com/teivah/majorana/proc/mvp1"
	mvp2 "github.com/teivah/majorana/proc/mvp2"
	mvp3 "github.com/teivah/majorana/proc/mvp3"
	mvp4 "github.com/teivah/majorana/proc/mvp4"
	mvp5 "github.com/teivah/majorana/proc/mvp5"
	mvp6_0 "github.com/teivah/majorana/proc/mvp6-0"
	mvp6_1 "github.com/teivah/majorana/proc/mvp6-1"
	mvp6_2 "github.com/teivah/majorana/proc/mvp6-2"
	mvp6_3 "github.com/teivah/majorana/proc/mvp6-3"
	mvp7_0 "github.com/teivah/majorana/proc/mvp7-0"
	mvp7_1 "github.com/teivah/majorana/proc/mvp7-1"
	mvp8_0 "github.com/teivah/majorana/proc/mvp8-0"
	"github.com/teivah/majorana/risc"
)

// VM is the interface all twelve variants implement.
type VM interface {
	Run(app risc.Application) (int, error)
	Context() *risc.Context
}

// Config names one processor configuration: a variant and its parallelism
// (EU=WU count for MVP-6.x, cores for MVP-7.x/8; 1 for MVP-1..5). WU is only
// different from Par in the asymmetric thorough configurations.
type Config struct {
	Variant string
	Par     int
	WU      int
}

func (c Config) String() string {
	if c.WU != 0 && c.WU != c.Par {
		return fmt.Sprintf("%s/%dx%d", c.Variant, c.Par, c.WU)
	}
	return fmt.Sprintf("%s/%d", c.Variant, c.Par)
}

// Level is the position of the variant in the MVP sequence (1, 2, 3, 4, 5, 60, 61, 62, 63, 70, 71, 80)
func (c Config) Level() int {
	switch c.Variant {
	case "mvp1":
		return 1
	case "mvp2":
		return 2
	case "mvp3":
		return 3
	case "mvp4":
		return 4
	case "mvp5":
		return 5
	case "mvp6-0":
		return 60
	case "mvp6-1":
		return 61
	case "mvp6-2":
		return 62
	case "mvp6-3":
		return 63
	case "mvp7-0":
		return 70
	case "mvp7-1":
		return 71
	case "mvp8-0":
		return 80
	}
	panic("unknown variant " + c.Variant)
}

// Width is the issue width used for the C12 lower bound.
func (c Config) Width() int {
	if c.Level() < 60 {
		return 1
	}
	return c.Par
}

func (c Config) New(mem int) VM {
	wu := c.WU
	if wu == 0 {
		wu = c.Par
	}
	switch c.Variant {
	case "mvp1":
		return mvp1.NewCPU(false, mem)
	case "mvp2":
		return mvp2.NewCPU(false, mem)
	case "mvp3":
		return mvp3.NewCPU(false, mem)
	case "mvp4":
		return mvp4.NewCPU(false, mem)
	case "mvp5":
		return mvp5.NewCPU(false, mem)
	case "mvp6-0":
		return mvp6_0.NewCPU(false, mem, c.Par, wu)
	case "mvp6-1":
		return mvp6_1.NewCPU(false, mem, c.Par, wu)
	case "mvp6-2":
		return mvp6_2.NewCPU(false, mem, c.Par, wu)
	case "mvp6-3":
		return mvp6_3.NewCPU(false, mem, c.Par, wu)
	case "mvp7-0":
		return mvp7_0.NewCPU(false, mem, c.Par)
	case "mvp7-1":
		return mvp7_1.NewCPU(false, mem, c.Par)
	case "mvp8-0":
		return mvp8_0.NewCPU(false, mem, c.Par)
	}
	panic("unknown variant " + c.Variant)
}

var allVariants = []string{"mvp1", "mvp2", "mvp3", "mvp4", "mvp5", "mvp6-0", "mvp6-1", "mvp6-2", "mvp6-3", "mvp7-0", "mvp7-1", "mvp8-0"}

// AllConfigs returns the 33 standard configurations (12 variants, parallelism 1..4).
func AllConfigs() []Config {
	var cs []Config
	for _, v := range allVariants {
		c := Config{Variant: v, Par: 1}
		if c.Level() < 60 {
			cs = append(cs, c)
			continue
		}
		for p := 1; p <= 4; p++ {
			cs = append(cs, Config{Variant: v, Par: p})
		}
	}
	return cs
}

// ConfigsFrom returns the configurations whose level is >= minLevel.
func ConfigsFrom(minLevel int) []Config {
	var cs []Config
	for _, c := range AllConfigs() {
		if c.Level() >= minLevel {
			cs = append(cs, c)
		}
	}
	return cs
}

// AsymConfigs are the thorough-only EU != WU configurations of MVP-6.x.
func AsymConfigs() []Config {
	var cs []Config
	for _, v := range []string{"mvp6-0", "mvp6-1", "mvp6-2", "mvp6-3"} {
		cs = append(cs, Config{Variant: v, Par: 2, WU: 1}, Config{Variant: v, Par: 1, WU: 2}, Config{Variant: v, Par: 3, WU: 2}, Config{Variant: v, Par: 4, WU: 1})
	}
	return cs
}

var regNames = []string{"zero", "ra", "sp", "gp", "tp", "t0", "t1", "t2", "s0", "s1", "a0", "a1", "a2", "a3", "a4", "a5", "a6", "a7",
	"s2", "s3", "s4", "s5", "s6", "s7", "s8", "s9", "s10", "s11", "t3", "t4", "t5", "t6"}

func regByName(n string) risc.RegisterType {
	for i, r := range regNames {
		if r == n {
			return risc.RegisterType(i)
		}
	}
	panic("unknown register " + n)
}

func regName(r risc.RegisterType) string { return regNames[int(r)] }

// ImgByte mirrors RV32!ImgByte (the memory images of the specification).
func ImgByte(img string, a int) byte {
	switch img {
	case "zero":
		return 0
	case "ramp":
		return byte((a*7 + 3) % 256)
	case "high":
		return byte((a*37 + (a/64)*11 + 128) % 256)
	case "ones":
		return 255
	}
	panic("unknown image " + img)
}

// RunResult is the observation of one run of the real code.
type RunResult struct {
	Cycles  int
	Err     string // returned error ("" if nil)
	Panic   string // recovered panic value ("" if none)
	Hang    bool   // tick budget exceeded
	Blocked bool   // wall-clock watchdog (run blocked without spinning)
	Ticks   int64
	Regs    map[string]int32
	Mem     []int8
}

func (r RunResult) Failed() bool { return r.Err != "" || r.Panic != "" || r.Hang || r.Blocked }

func (r RunResult) Outcome() string {
	switch {
	case r.Hang:
		return "hang"
	case r.Blocked:
		return "blocked"
	case r.Panic != "":
		return "panic: " + r.Panic
	case r.Err != "":
		return "error: " + r.Err
	}
	return "ok"
}

type budgetExceeded struct{}

// Init describes the initial architectural state.
type InitState struct {
	Img     string
	MemSize int
	Regs    map[string]int32
	MemInit map[int]byte // explicit overrides of the image
}

// Budget computes the tick budget for a run whose sequential execution takes n
// instructions: a fixed multiple (8) of n times the slowest memory latency, plus
// a constant for cache write-back at the end (C07).
func Budget(n int, par int) int64 {
	return int64(8 * 309 * (n + 160 + 32*par))
}

// RunApp runs app on a fresh machine of the given configuration.
func RunApp(cfg Config, app risc.Application, init InitState, budget int64) (res RunResult) {
	vm := cfg.New(init.MemSize)
	ctx := vm.Context()
	for a := 0; a < init.MemSize; a++ {
		ctx.Memory[a] = int8(ImgByte(init.Img, a))
	}
	for a, b := range init.MemInit {
		ctx.Memory[a] = int8(b)
	}
	for r, v := range init.Regs {
		if r == "zero" {
			continue
		}
		ctx.Registers[regByName(r)] = v
	}
	var ticks int64
	var progress atomic.Int64 // ticks, readable by the watchdog
	ctx.SetVerifHooks(&risc.VerifHooks{Tick: func(int) {
		ticks++
		progress.Store(ticks)
		if ticks > budget {
			panic(budgetExceeded{})
		}
	}})
	done := make(chan struct{})
	go func() {
		defer close(done)
		defer func() {
			if p := recover(); p != nil {
				if _, ok := p.(budgetExceeded); ok {
					res.Hang = true
				} else {
					res.Panic = fmt.Sprint(p)
				}
			}
		}()
		cycles, err := vm.Run(app)
		res.Cycles = cycles
		if err != nil {
			res.Err = err.Error()
		}
	}()
	// blocked = no simulated cycle for 60 s of wall-clock time (e.g. a full channel): independent of how
	// slow a loaded machine makes a long run, which the (deterministic) tick budget bounds
	last := int64(-1)
wait:
	for {
		select {
		case <-done:
			break wait
		case <-time.After(60 * time.Second):
			now := progress.Load()
			if now == last {
				return RunResult{Blocked: true} // the goroutine is leaked
			}
			last = now
		}
	}
	res.Ticks = ticks
	res.Regs = map[string]int32{}
	for r, v := range ctx.Registers {
		if v != 0 && r != risc.Zero {
			res.Regs[regName(r)] = v
		}
	}
	res.Mem = ctx.Memory
	return res
}

func fmtRegs(m map[string]int32) string {
	ks := make([]string, 0, len(m))
	for k := range m {
		ks = append(ks, k)
	}
	sort.Strings(ks)
	var sb strings.Builder
	for _, k := range ks {
		fmt.Fprintf(&sb, "%s=%d ", k, m[k])
	}
	return strings.TrimSpace(sb.String())
}
