#!/bin/bash
cd /verif
for seed in 2 3 4 5; do
  for p in C01 C07 C05 C12; do
    out=$(VERIF_SEED=$seed VERIF_OUT_DIR=/tmp/sweepout timeout 3000 ./check $p quick 2>&1); rc=$?
    echo "seed=$seed $p rc=$rc $(echo "$out" | tail -1)"
    if [ $rc -ne 0 ]; then echo "$out" | grep -E 'VIOLATION|what:|INCONCLUSIVE' | head -6 | cut -c1-400; fi
  done
done
