#!/bin/bash
# Runs the quick tier of every check with several seeds on the current tree; prints one line per run.
cd /verif
for seed in ${SEEDS:-2 3}; do
  for p in C01 C02 C03 C04 C05 C06 C07 C08 C09 C10 C11 C12 C13 C14 C15 C16; do
    out=$(VERIF_SEED=$seed timeout 3000 ./check $p quick 2>&1); rc=$?
    echo "seed=$seed $p rc=$rc $(echo "$out" | tail -1)"
    if [ $rc -ne 0 ]; then echo "$out" | grep -E 'VIOLATION|what:|INCONCLUSIVE' | head -5 | cut -c1-300; fi
  done
done
