#!/usr/bin/env python3
"""Writes /verif/MANIFEST.json from the table below (single source of truth)."""
import json, subprocess
hooks_commits = subprocess.run("git -C /repo log --format=%H --grep='^verif:'", shell=True, capture_output=True, text=True).stdout.split()
CHECKS = {
 # id: (category, technique, text, note, design_ref)
 "C02": ("model_checking", "TLC-enumerated instruction transitions (spec/IsaCases.tla over RV32.tla) replayed on risc.InstructionRunner",
         "Every (mnemonic, operand lattice point, alias pattern, immediate) transition of the RV32 specification is enumerated by TLC and replayed on the real instruction runners; the whole post-state, declared register sets and memory address lists are compared. Bounded-exhaustive over the lattice, sampled (seeded) beyond it.",
         "RV32.tla is an independent transcription of RV32IM; operand pairs outside lattice+samples are not covered", "4/C02"),
 "C16": ("model_checking", "TLC-emitted per-byte codec tables (spec/Codec.tla) + full 2^32 sweep against table-composed expectations",
         "TLC checks the per-byte decomposition lemma of the codec and emits its 4x256 tables; the harness replays tables, lattice and 2-bit words and sweeps 10^6 seeded words (quick) or all 2^32 words and byte quadruples (thorough).",
         "the four-lookup composition of an expectation is trusted (TLC-checked lemma over the lattice)", "4/C16"),
}
NOT_YET = {}
import os, sys
sys.path.insert(0, os.path.dirname(__file__))
try:
    from manifest_table import CHECKS as C2, NOT_APPLICABLE
    CHECKS = C2
except ImportError:
    NOT_APPLICABLE = {}
props = [json.loads(l)["id"] for l in open("/verif/properties.jsonl")]
m = {
 "version": 1,
 "setup_cmd": "cd /verif/harness && GOFLAGS=-mod=mod GOPROXY=off GOSUMDB=off GOTOOLCHAIN=local go build -tags verif -o /dev/null . && mkdir -p /verif/.work /verif/evidence /verif/replays",
 "hooks": {
   "guard": "verif",
   "enable": "go build -tags verif (harness module /verif/harness with replace github.com/teivah/majorana => /repo)",
   "baseline_off_cmd": "/verif/scripts/baseline_off.sh",
   "source_commits": hooks_commits,
   "add_only": True,
 },
 "engines": [
   {"name": "tlc", "path": "/opt/veriftools/tla/tla2tools.jar", "serves_properties": sorted(CHECKS), "kind_free_text": "TLC 1.8.0 explicit-state model checker: exhaustive BFS, seeded simulation, trace validation of /verif/spec/*.tla"},
   {"name": "harness", "path": "/verif/harness", "serves_properties": sorted(CHECKS), "kind_free_text": "Go conformance harness: replays TLC-generated behaviours on the real code and records implementation traces for TLC"},
 ],
 "checks": [],
 "notes": "See DESIGN.md. Exit codes: 0 held, 1 violation (VIOLATION line), 2 inconclusive (infrastructure).",
 "not_applicable": [],
}
for pid in props:
    if pid in CHECKS:
        cat, tech, text, note, ref = CHECKS[pid]
        m["checks"].append({
          "property_id": pid,
          "quick_cmd": "./check %s quick" % pid,
          "thorough_cmd": "./check %s thorough" % pid,
          "evidence_file": "/verif/evidence/%s.json" % pid,
          "replay_cmd_template": "./check %s --replay {path}" % pid,
          "engine": "tlc",
          "level_claimed": {"category": cat, "text": text, "design_ref": "DESIGN.md section " + ref},
          "level_note": note,
          "technique": tech,
        })
    else:
        m["not_applicable"].append({"property_id": pid, "reason": NOT_APPLICABLE.get(pid, "check not built yet in this round; the specification does not cover it yet (planned, see DESIGN.md section 9)")})
json.dump(m, open("/verif/MANIFEST.json", "w"), indent=1)
print("checks:", [c["property_id"] for c in m["checks"]], "n/a:", [n["property_id"] for n in m["not_applicable"]])
