# id: (category, technique, text, note, design_ref)
CHECKS = {
 "C02": ("model_checking", "TLC-enumerated instruction transitions (spec/IsaCases.tla over RV32.tla) replayed on risc.InstructionRunner",
         "Every (mnemonic, operand lattice point, alias pattern, immediate) transition of the RV32 specification is enumerated by TLC and replayed on the real instruction runners; the whole post-state, declared register sets and memory address lists are compared. Bounded-exhaustive over the lattice, sampled (seeded) beyond it.",
         "RV32.tla is an independent transcription of RV32IM; operand pairs outside lattice+samples are not covered", "4/C02"),
 "C11": ("model_checking", "TLC-enumerated abstract source texts and raw strings (spec/Asm.tla) replayed on risc.Parse",
         "TLC enumerates all texts of a bounded number of abstract lines (45 mnemonics x decorations, malformations, grammar-silent forms) and all short raw strings; every one is parsed under recover and accepted programs are compared with the specification's instruction count, label addresses and decoded operands (through the RV32 effect on a marked register file).",
         "the line renderer of the harness is trusted; longer texts and other bytes are not explored", "4/C11"),
 "C13": ("model_checking", "TLC-enumerated and simulated histories of spec/LineCache.tla and spec/KVLru.tla replayed on comp.LRUCache and common/cache.LRUCache",
         "All histories up to length K over every exported method (small geometries, exhaustive) and long seeded histories on the real 64B/1KB and 128B/4KB geometries; the C13 clauses are TLC invariants of the model, and each history is replayed with return values and the resident-line list compared after every call.",
         "histories respect the model's preconditions (aligned bases, push only on a miss)", "4/C13"),
 "C14": ("model_checking", "TLC-enumerated and simulated histories of spec/Bus.tla replayed on comp.BufferedBus, SimpleBus, Queue, Broadcast",
         "All op interleavings up to length K for capacities (1,1) (2,2) (1,3) (3,1) (4,4), disciplined and arbitrary producers, plus long seeded histories; the C14 clauses are TLC invariants over the history; every return value and query method is compared after every call and the remaining items are drained at the end.",
         "the capacity clause is asserted for disciplined producers only, as the property conditions it", "4/C14"),
 "C15": ("model_checking", "TLC-enumerated and simulated histories of spec/RegTx.tla (the property itself as a model) replayed on risc.Context (map and rename-table modes) and comp.RAT (ring 2, 3)",
         "All write/read/commit/rollback histories up to length K over 2 registers and 3 tags in arbitrary order, plus long seeded ones; after every read the value and after every commit/rollback the architectural registers are compared with the property's definition (youngest = greatest tag).",
         "two recorded findings (arrival order instead of tag order; map mode ignores the reader's tag) are reported as KNOWN-FINDING by class", "4/C15"),
 "C16": ("model_checking", "TLC-emitted per-byte codec tables (spec/Codec.tla) + full 2^32 sweep against table-composed expectations",
         "TLC checks the per-byte decomposition lemma of the codec and emits its 4x256 tables; the harness replays tables, lattice and 2-bit words and sweeps 10^6 seeded words (quick) or all 2^32 words and byte quadruples (thorough).",
         "the four-lookup composition of an expectation is trusted (TLC-checked lemma over the lattice)", "4/C16"),
}

WMNOTE = "RV32.tla is the reference for the sequential result; failing observations inside a listed finding class (spec/Findings.tla x configuration, see known_findings.json) are reported as KNOWN-FINDING; bounded exploration"
def wm(pid, fam, text, ref):
    return ("model_checking", "TLC-generated program family (%s, expectations from RV32!Step) replayed on the real variants; verdict on the property's focus set" % fam, text, WMNOTE, ref)
CHECKS.update({
 "C01": wm("C01", "spec/General.tla: exhaustive up to the length bound + seeded simulation of long programs with loops",
           "Every program of the General family up to the bound and simulated long programs run on all 33 configurations; the whole final register file and memory must equal the final state of the sequential specification.", "4/C01"),
 "C03": wm("C03", "spec/Families.tla Shadow", "Branch-shadow programs (fast/slow producer x 10 branch kinds x shadows of register writes, stores, loads, jal) on MVP-4..8 x parallelism 1..4; the registers and bytes the shadow would write must keep their sequential values and the run must not fail.", "4/C03"),
 "C04": wm("C04", "spec/Families.tla RegDep", "All register-reuse sequences up to length 3/4 with slow producers on MVP-4..8 x parallelism; every register must hold the sequential value.", "4/C04"),
 "C05": wm("C05", "spec/Families.tla MemWalk", "Counted load/store/read-modify-write walks over an 8 KB memory (more lines than any cache, dirty evictions) on MVP-3..8; re-read sum and whole final memory must equal the sequential ones.", "4/C05"),
 "C07": wm("C07", "all families + Err", "All families and the Err family on all configurations under a tick budget derived from the sequential instruction count; verdict = budget overrun (VerifTick hook), recovered panic, blocked run, or a defined error not returned as an error value.", "4/C07"),
 "C08": ("model_checking", "TLC-selected inputs (families of spec/Families.tla, General.tla) run repeatedly, concurrently, and with a reused parsed Application whose history used a different initial state", "Every case is run 4 times per configuration (2 concurrently) plus once with an Application that was first run on another variant from another initial state; cycles, registers and memory must be identical.", "goroutine interleavings and map orders are sampled by repetition, not enumerated; the specification's role is input selection and the single expected result", "4/C08"),
 "C09": wm("C09", "spec/Families.tla Tail", "Every tail of 1..3 instructions (load/store miss and hit, dependent ALU, mul) x exit by ret or by running past the end, on MVP-4..8 x parallelism; the registers and bytes the tail writes must hold the sequential values.", "4/C09"),
 "C10": wm("C10", "spec/Families.tla MemDep", "Store->load, load->store and store->store pairs on overlapping bytes at distance 1..4 with independent address registers, warm or cold line, on MVP-4..8 x parallelism; the load destination and the conflicting bytes must hold the sequential values.", "4/C10"),
 "C12": ("model_checking", "TLC-generated programs with the MVP-1 latency ledger of RV32.tla (Cyc1) as the expected cycle count; Timing family for value independence", "MVP-1 cycles must equal the specification's ledger exactly, MVP-2 <= MVP-1, every variant >= ceil(n/width) > 0, and Timing programs with equal path and addresses must take equal cycles on every configuration.", "cycle properties are only judged on runs that agree functionally with the sequential result", "4/C12"),
})
CHECKS.update({
 "C06": ("model_checking", "TLC exhaustive on the design model spec/MSI.tla + trace validation (spec/MSITrace.tla) of per-cycle coherence snapshots exported by the verif hooks from rig schedules and full CPU runs",
         "The C06 clauses are written once (spec/MSIProps.tla); TLC checks them on every reachable state of the design model (2 cores x 2 lines, 3 cores x 1 line; deadlock-freedom, completion under fairness) and on every logged implementation state of MVP-7.0/7.1/8: rig schedules (pairs at every grid offset, triples, evictions, injected flushes) and CPU runs of program families on 1..4 cores.",
         "hash equality stands for byte identity; the rig explores timing offsets (latencies are constants of the code)", "4/C06"),
})
CHECKS.update({})
NOT_APPLICABLE = {}
