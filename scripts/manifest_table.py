# id: (category, technique, text, note, design_ref)
CHECKS = {
 "C02": ("model_checking", "TLC-enumerated instruction transitions (spec/IsaCases.tla over RV32.tla) replayed on risc.InstructionRunner",
         "Every (mnemonic, operand lattice point, alias pattern, immediate) transition of the RV32 specification is enumerated by TLC and replayed on the real instruction runners; the whole post-state, declared register sets and memory address lists are compared. Bounded-exhaustive over the lattice, sampled (seeded) beyond it.",
         "RV32.tla is an independent transcription of RV32IM; operand pairs outside lattice+samples are not covered", "4/C02"),
 "C11": ("model_checking", "TLC-enumerated abstract source texts and raw strings (spec/Asm.tla) replayed on risc.Parse",
         "TLC enumerates all texts of a bounded number of abstract lines (45 mnemonics x decorations, malformations, grammar-silent forms) and all short raw strings; every one is parsed under recover and accepted programs are compared with the specification's instruction count, label addresses and decoded operands (through the RV32 effect on a marked register file).",
         "the line renderer of the harness is trusted; longer texts and other bytes are not explored", "4/C11"),
 "C13": ("model_checking", "TLC-enumerated and simulated histories of spec/LineCache.tla and spec/KVLru.tla replayed on comp.LRUCache and common/cache.LRUCache",
         "All histories up to length K over every exported method (small geometries, exhaustive) and long seeded histories on the real 64B/1KB and 128B/4KB geometries; the C13 clauses are TLC invariants of the model, and each history is replayed with return values and the resident-line list compared after every call.",
         "histories respect the model's preconditions (aligned bases, push only on a miss)", "4/C13"),
 "C14": ("model_checking", "TLC-enumerated and simulated histories of spec/Bus.tla replayed on comp.BufferedBus, SimpleBus, Queue, Broadcast",
         "All op interleavings up to length K for capacities (1,1) (2,2) (1,3) (3,1) (4,4), disciplined and arbitrary producers, plus long seeded histories; the C14 clauses are TLC invariants over the history; every return value and query method is compared after every call and the remaining items are drained at the end.",
         "the capacity clause is asserted for disciplined producers only, as the property conditions it", "4/C14"),
 "C15": ("model_checking", "TLC-enumerated and simulated histories of spec/RegTx.tla (the property itself as a model) replayed on risc.Context (map and rename-table modes) and comp.RAT (ring 2, 3)",
         "All write/read/commit/rollback histories up to length K over 2 registers and 3 tags in arbitrary order, plus long seeded ones; after every read the value and after every commit/rollback the architectural registers are compared with the property's definition (youngest = greatest tag).",
         "two recorded findings (arrival order instead of tag order; map mode ignores the reader's tag) are reported as KNOWN-FINDING by class", "4/C15"),
 "C16": ("model_checking", "TLC-emitted per-byte codec tables (spec/Codec.tla) + full 2^32 sweep against table-composed expectations",
         "TLC checks the per-byte decomposition lemma of the codec and emits its 4x256 tables; the harness replays tables, lattice and 2-bit words and sweeps 10^6 seeded words (quick) or all 2^32 words and byte quadruples (thorough).",
         "the four-lookup composition of an expectation is trusted (TLC-checked lemma over the lattice)", "4/C16"),
}
NOT_APPLICABLE = {}
