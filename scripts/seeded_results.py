#!/usr/bin/env python3
"""Records, in seeded/<id>/meta.json, which checks report a violation with the change applied
(measured with scripts/try_mutant.sh on the quick tier unless said otherwise)."""
import json, os
DET = {
 "C01-1": (["C01"], "General: two in-flight writes of one register then a reader on MVP-4/5"),
 "C01-2": (["C01"], "General / MemDep busy: store miss behind a store miss, then load of the line on MVP-4"),
 "C02-1": (["C02", "C16"], "sw of a word with bit 31 set; the 4x256 table entry for byte 3"),
 "C02-2": (["C02"], "declared read set of sh"),
 "C03-1": (["C03"], "Call family (jalr executed twice with different targets) on MVP-5"),
 "C03-2": (["C03", "C04"], "Shadow family on mvp7-1 with >= 3 cores"),
 "C04-1": (["C04 (thorough)"], "RegDep sequences of length 4 (mul t3,t0,t0 + forwarded slow reader + writer) on 6.1/6.2 with >= 3 units; not reached by the quick tier (length 3)"),
 "C04-2": (["C04"], "RegDep: sub consuming a forwarded operand on 6.1..8"),
 "C05-1": (["C05", "C10"], "MemWalk ssl mix / MemDep busy on MVP-5"),
 "C05-2": (["C05"], "LineFill family on mvp6-0 with 2 units"),
 "C06-1": (["C06"], "rig family G (upgrade with two sharers while one sharer's snoop is busy): SWMR false on a logged state"),
 "C06-2": (["C06"], "CPU traces and rig triples on MVP-8: SWMR / SharedClean false on logged states"),
 "C07-1": (["C07", "C05"], "Unroll family (unaligned first miss, eviction, reload without a flush) on mvp6-0: hang"),
 "C07-2": (["C07"], "Call family on mvp7-1: hang"),
 "C08-1": (["C08"], "reuse of a parsed Application after a run from another initial state (Repo string-length, branches/stores that consumed a forward)"),
 "C08-2": (["C08"], "Repo bubble-sort on mvp8-0/2: repeated runs return different cycle counts"),
 "C09-1": (["C09", "C01"], "Tail / General on mvp6-2"),
 "C09-2": (["C09"], "Tail on mvp8-0 with >= 2 cores"),
 "C10-1": (["C10"], "MemDep busy variant on MVP-4"),
 "C10-2b": (["C10"], "MemDep warm variant on mvp7-0/2"),
 "C11-1": (["C11"], "label after a bare nop/ret"),
 "C11-2": (["C11"], "zeropad decoration"),
 "C12-1": (["C12"], "Misaligned family (lw/lh at odd offsets inside one line) on MVP-1: cycles differ from the ledger; missed until the specification gave misaligned accesses a defined (flagged) semantics"),
 "C12-2": (["C12"], "Timing family: sw of 0 over zero memory vs another value on MVP-4"),
 "C13-1": (["C13"], "LineCache histories with an eviction-warning push"),
 "C13-2": (["C13"], "KVLru histories"),
 "C14-1": (["C14"], "BufferedBus histories (simulation depth 80, drain)"),
 "C14-2": (["C14"], "BufferedBus histories of length 4"),
 "C15-1b": (["C15"], "RegTx rat/ring histories with an older and a younger uncommitted write and a tagged read"),
 "C15-2": (["C15"], "RegTx map histories: rollback with only-younger writes"),
 "C16-1": (["C16"], "table entry byte 2 = 0x80"),
 "C16-2": (["C16"], "table entry byte 3 = 0x80"),
 "C03r2-1": (["C03"], "Shadow2 warm shape (shadow store to a line Modified in the executing core, dispatched with the branch) on mvp7-0/2; missed until the family had two busy cores and hazard-free fillers"),
 "C03r2-2": (["C03"], "Shadow2 far shape (shadow jump beyond the branch target) on mvp7-0 with >= 3 cores"),
 "C04r2-1": (["C04"], "RegDep with the store-miss template on MVP-5; missed until RegDep contained a store that keeps the write path busy"),
 "C04r2-2": (["C04"], "RegDep: slow load then fast writer of the same register on mvp6-0 with >= 2 units"),
 "C09r2-1": (["C09"], "Tail2 shape on mvp7-1 with >= 2 cores; missed until the shape (stores pinned to a busy owner core right before ret) existed"),
 "C09r2-2": (["C09"], "Tail on mvp6-1 with >= 2 units, exit by running past the end"),
 "C10r2-1": (["C10"], "MemDep warm variant (line resident, address registers dependent on the warming load) on mvp6-2/2; missed until the warm prologue made the pair wait for the line"),
 "C10r2-2": (["C10"], "LineFill on mvp6-1/2"),
}
for d in sorted(os.listdir('/verif/seeded')):
    p = '/verif/seeded/%s/meta.json' % d
    if not os.path.exists(p) or d not in DET: continue
    m = json.load(open(p))
    m['detected_by'], m['detected_how'] = DET[d]
    json.dump(m, open(p, 'w'), indent=1)
    print(d, m['detected_by'])
