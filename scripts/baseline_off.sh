#!/bin/bash
# Runs the repository's own test suite with the verif guard OFF and compares with
# /root/.vp/BASELINE.json (every stable_pass test must pass).
export GOFLAGS=-mod=mod GOPROXY=off GOSUMDB=off GOTOOLCHAIN=local
OUT=${1:-/verif/.work/baseline.gotest.json}
mkdir -p "$(dirname "$OUT")"
(cd /repo && go test -mod=mod -json -vet=off -count=1 -timeout 25m ./... > "$OUT" 2>/dev/null)
python3 - "$OUT" <<'PY'
import json,sys
passed=set(); failed=set()
for line in open(sys.argv[1]):
    try: e=json.loads(line)
    except Exception: continue
    if e.get('Test') and e.get('Action') in('pass','fail'):
        k=e['Package']+'::'+e['Test']
        (passed if e['Action']=='pass' else failed).add(k)
base=json.load(open('/root/.vp/BASELINE.json'))
sp=base['stable_pass']
missing=[t for t in sp if t not in passed]
print('passed=%d failed=%d baseline=%d missing_from_pass=%d'%(len(passed),len(failed),len(sp),len(missing)))
for t in missing[:20]: print('  NOT PASSING:',t)
sys.exit(1 if missing else 0)
PY
