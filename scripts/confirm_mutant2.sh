#!/bin/bash
# usage: confirm_mutant.sh <agent out dir> <seeded id> [nosuite]
# Confirms a seeded change in a scratch worktree of /repo (outside /repo and /verif):
#  builds with the patch, demo FAILS with the patch, existing suite passes with the patch
#  (same stable_pass set as BASELINE.json), demo PASSES without the patch.
# On success copies patch.diff + demo + meta.json to /verif/seeded/<id>/ and appends confirmation to meta.json.
set -u
SRC=$1; ID=$2; NOSUITE=${3:-}
export GOFLAGS=-mod=mod GOPROXY=off GOSUMDB=off GOTOOLCHAIN=local
WT=/tmp/cm/$ID
rm -rf "$WT"; mkdir -p /tmp/cm
git -C /repo worktree add -q --detach "$WT" HEAD || exit 2
cleanup() { git -C /repo worktree remove --force "$WT" 2>/dev/null; rm -rf "$WT"; }
trap cleanup EXIT
cd "$WT" || exit 2
DEMO=$(ls "$SRC" | grep -E '^demo.*\.go$' | head -1)
DEST=$(grep -oE '(<[^>]*>/)?[a-zA-Z0-9_/.-]+_test\.go' "$SRC/HOWTO.txt" | sed -E 's#^<[^>]*>/##' | grep '/' | grep -v '^/' | head -1)
CMD=$(grep -oE "go test .*" "$SRC/HOWTO.txt" | head -1 | sed -E 's/[[:space:]]+$//')
if [ -z "$DEST" ] || [ -z "$CMD" ]; then echo "CANNOT PARSE HOWTO ($DEST | $CMD)"; exit 2; fi
echo "demo -> $DEST ; cmd: $CMD"
if ! git apply "$SRC/patch.diff"; then echo "RESULT $ID: patch does not apply to HEAD"; exit 1; fi
if ! go build ./... ; then echo "RESULT $ID: does not build"; exit 1; fi
mkdir -p "$(dirname "$DEST")"
cp "$SRC/$DEMO" "$DEST" || { echo "RESULT $ID: cannot place the demo"; exit 2; }
if (eval "timeout 900 $CMD") > /tmp/cm/$ID.demo_with.log 2>&1; then echo "RESULT $ID: demo PASSES with the patch (not a demonstration)"; exit 1; fi
if grep -q 'no tests to run' /tmp/cm/$ID.demo_with.log; then echo "RESULT $ID: demo did not run (no tests to run)"; exit 1; fi
if grep -qE 'directory not found|no such file|build failed|cannot find package|setup failed' /tmp/cm/$ID.demo_with.log; then echo "RESULT $ID: demo did not build/run with the patch"; tail -3 /tmp/cm/$ID.demo_with.log; exit 1; fi
echo "demo fails with patch: ok"
rm -f "$DEST"
SUITE="skipped"
if [ -z "$NOSUITE" ]; then
  go test -mod=mod -json -vet=off -count=1 -timeout ${SUITE_TIMEOUT:-25m} ./... > /tmp/cm/$ID.suite.json 2>/dev/null
  SUITE=$(python3 - /tmp/cm/$ID.suite.json <<'PY'
import json,sys
passed=set()
for line in open(sys.argv[1]):
    try: e=json.loads(line)
    except Exception: continue
    if e.get('Test') and e.get('Action')=='pass': passed.add(e['Package']+'::'+e['Test'])
sp=json.load(open('/root/.vp/BASELINE.json'))['stable_pass']
missing=[t for t in sp if t not in passed]
print('suite: %d/%d stable tests pass%s'%(len(sp)-len(missing),len(sp),'' if not missing else ' MISSING '+','.join(missing[:5])))
PY
)
  echo "$SUITE"
  case "$SUITE" in *MISSING*) echo "RESULT $ID: existing suite catches the change"; exit 1;; esac
  rm -f /tmp/cm/$ID.suite.json
fi
git checkout -q -- . ; git clean -fdq
mkdir -p "$(dirname "$DEST")"
cp "$SRC/$DEMO" "$DEST"
if ! (eval "timeout 900 $CMD") > /tmp/cm/$ID.demo_without.log 2>&1; then echo "RESULT $ID: demo FAILS without the patch"; tail -5 /tmp/cm/$ID.demo_without.log; exit 1; fi
echo "demo passes without patch: ok"
mkdir -p /verif/seeded/$ID
cp "$SRC/patch.diff" /verif/seeded/$ID/patch.diff
cp "$SRC/$DEMO" /verif/seeded/$ID/$DEMO
cp "$SRC/HOWTO.txt" /verif/seeded/$ID/HOWTO.txt
python3 - "$SRC/meta.json" /verif/seeded/$ID/meta.json "$DEST" "$CMD" "$SUITE" <<'PY'
import json,sys,subprocess
m=json.load(open(sys.argv[1]))
m['demo_dest']=sys.argv[3]; m['demo_cmd']=sys.argv[4]
m['confirmed']={'repo_head':subprocess.run('git -C /repo rev-parse --short HEAD',shell=True,capture_output=True,text=True).stdout.strip(),
  'builds':True,'demo_fails_with_patch':True,'demo_passes_without_patch':True,'existing_suite':sys.argv[5]}
json.dump(m,open(sys.argv[2],'w'),indent=1)
PY
echo "RESULT $ID: confirmed"
