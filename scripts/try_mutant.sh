#!/bin/bash
# usage: try_mutant.sh <patch.diff> <check> [<check> ...]   (applies to /repo, runs quick checks, reverts)
P=$1; shift
cd /verif
if ! git -C /repo apply --check "$P" 2>/dev/null; then echo "PATCH DOES NOT APPLY: $P"; exit 3; fi
git -C /repo apply "$P"
for c in "$@"; do
  out=$(timeout 2400 ./check $c ${TIER:-quick} 2>&1)
  rc=$?
  echo "[$c rc=$rc] $(echo "$out" | grep -c '^VIOLATION') violation lines; $(echo "$out" | tail -1)"
  echo "$out" | grep 'what:' | head -3 | cut -c1-300
done
git -C /repo checkout -- .
