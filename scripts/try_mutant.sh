#!/bin/bash
# usage: try_mutant.sh <patch.diff> <check> [<check> ...]
# Applies the patch in a scratch worktree of /repo (outside /repo and /verif), runs the checks against
# that worktree (VERIF_REPO), removes the worktree. /repo itself is never touched.
P=$1; shift
WT=/tmp/tm/$$
mkdir -p /tmp/tm
git -C /repo worktree add -q --detach "$WT" HEAD || exit 2
trap 'git -C /repo worktree remove --force "$WT" 2>/dev/null; rm -rf "$WT"' EXIT
if ! git -C "$WT" apply "$P" 2>/dev/null; then echo "PATCH DOES NOT APPLY: $P"; exit 3; fi
cd /verif
for c in "$@"; do
  out=$(VERIF_REPO="$WT" timeout ${TRY_TIMEOUT:-3000} ./check $c ${TIER:-quick} 2>&1)
  rc=$?
  echo "[$c rc=$rc] $(echo "$out" | grep -c '^VIOLATION') violation lines; $(echo "$out" | tail -1)"
  echo "$out" | grep 'what:' | head -3 | cut -c1-300
done
