------------------------------- MODULE Bus -------------------------------
(***************************************************************************)
(* Reference models of the pipeline plumbing of proc/comp (C14):           *)
(*   Kind = "buffered"  comp.BufferedBus   (input side `buffer` with an    *)
(*                       availability cycle per entry, output side `queue`)*)
(*   Kind = "simple"    comp.SimpleBus     (two-slot latch)                *)
(*   Kind = "queue"     comp.Queue         (insertion-ordered, removal     *)
(*                       while iterating)                                  *)
(*   Kind = "broadcast" comp.Broadcast     (every listener sees every      *)
(*                       notification once per commit)                     *)
(* Each is written to be bound: the state is what the Go type holds, one   *)
(* action per exported method, every action logs its return value and the  *)
(* values of the query methods afterwards.  The clauses of C14 are stated  *)
(* as invariants over the history.                                         *)
(***************************************************************************)
EXTENDS Integers, Sequences, FiniteSets, Json, TLC, Randomization

CONSTANTS Kind, QueueLen, BufferLen, K,
          Disciplined,  \* TRUE: producers add only when CanAdd and never Revert (capacity clause asserted)
          Sample        \* 0 exhaustive; n > 0: simulation picks n random successors per op kind (unused for small alphabets)

VARIABLES buffer,  \* buffered: seq of [avail, t]   | simple: pending slot (seq of 0/1 items) | queue: items | broadcast: <<>>
          queue,   \* buffered: seq of t            | simple: current slot                    | queue: <<>>  | broadcast: per-listener seq of [t, read]
          cycle, ctr, hist
vars == <<buffer, queue, cycle, ctr, hist>>

P1(t) == t % 2 = 0
P2(t) == t % 3 = 0
Pred(p, t) == IF p = 1 THEN P1(t) ELSE P2(t)

Min(a, b) == IF a < b THEN a ELSE b
RemoveAt(s, i) == SubSeq(s, 1, i - 1) \o SubSeq(s, i + 1, Len(s))

(* query values logged after every buffered-bus call *)
Q(b, q) == [pendingRead |-> Len(q), canGet |-> Len(q) # 0, canAdd |-> Len(b) # BufferLen,
            remaining |-> BufferLen - Len(b), empty |-> Len(q) = 0 /\ Len(b) = 0,
            ex1 |-> \E i \in 1 .. Len(q) : P1(q[i]), ex2 |-> \E i \in 1 .. Len(q) : P2(q[i])]

Log(op, arg, ok, ret) ==
  hist' = Append(hist, [op |-> op, arg |-> arg, cycle |-> cycle', ok |-> ok, ret |-> ret,
                        q |-> IF Kind = "buffered" THEN Q(buffer', queue') ELSE [n |-> 0]])

Init == /\ buffer = <<>> /\ cycle = 1 /\ ctr = 1 /\ hist = <<>>
        /\ queue = IF Kind = "broadcast" THEN [i \in 1 .. QueueLen |-> <<>>] ELSE <<>>

(* ------------------------------ BufferedBus ------------------------------ *)
BAdd == /\ (Disciplined => Len(buffer) # BufferLen)
        /\ buffer' = Append(buffer, [avail |-> cycle + 1, t |-> ctr])
        /\ ctr' = ctr + 1 /\ UNCHANGED <<queue, cycle>>
        /\ Log("Add", ctr, TRUE, 0)
BTick == /\ cycle' = cycle + 1 /\ UNCHANGED <<buffer, queue, ctr>> /\ Log("Tick", 0, TRUE, 0)
(* Connect(cycle): entries whose availability cycle has come move, in order, while the output side has room *)
RECURSIVE Movable(_, _, _)
Movable(b, room, c) == IF b = <<>> \/ room = 0 \/ Head(b).avail > c THEN 0 ELSE 1 + Movable(Tail(b), room - 1, c)
BConnect == LET n == Movable(buffer, QueueLen - Len(queue), cycle) IN
            /\ queue' = queue \o [i \in 1 .. n |-> buffer[i].t]
            /\ buffer' = SubSeq(buffer, n + 1, Len(buffer))
            /\ UNCHANGED <<cycle, ctr>> /\ Log("Connect", cycle, TRUE, n)
BGet == /\ UNCHANGED <<buffer, cycle, ctr>>
        /\ IF queue = <<>> THEN queue' = queue /\ Log("Get", 0, FALSE, 0)
                           ELSE queue' = Tail(queue) /\ Log("Get", 0, TRUE, Head(queue))
(* Pick(pred): removes and returns the first visible item satisfying pred *)
BPick(p) == LET hit == {i \in 1 .. Len(queue) : Pred(p, queue[i])} IN
            /\ UNCHANGED <<buffer, cycle, ctr>>
            /\ IF hit = {} THEN queue' = queue /\ Log("Pick", p, FALSE, 0)
               ELSE LET i == CHOOSE x \in hit : \A y \in hit : x <= y IN
                    queue' = RemoveAt(queue, i) /\ Log("Pick", p, TRUE, queue[i])
(* Revert(t, cycle): puts an item back at the head of the input side, available at once *)
BRevert == /\ ~Disciplined
           /\ buffer' = <<[avail |-> cycle, t |-> ctr]>> \o buffer
           /\ ctr' = ctr + 1 /\ UNCHANGED <<queue, cycle>> /\ Log("Revert", ctr, TRUE, 0)
BDeleteLast == /\ buffer' = IF buffer = <<>> THEN buffer ELSE SubSeq(buffer, 1, Len(buffer) - 1)
               /\ UNCHANGED <<queue, cycle, ctr>> /\ Log("DeleteLast", 0, TRUE, 0)
BClean == /\ buffer' = <<>> /\ queue' = <<>> /\ UNCHANGED <<cycle, ctr>> /\ Log("Clean", 0, TRUE, 0)

BufferedNext == BAdd \/ BTick \/ BConnect \/ BGet \/ BPick(1) \/ BPick(2) \/ BRevert \/ BDeleteLast \/ BClean

(* -------------------------------- SimpleBus ------------------------------- *)
(* buffer = pending slot, queue = current slot, each a sequence of length <= 1 *)
SAdd == /\ (Disciplined => buffer = <<>>)
        /\ buffer' = <<ctr>> /\ ctr' = ctr + 1 /\ UNCHANGED <<queue, cycle>> /\ Log("Add", ctr, TRUE, 0)
SGet == /\ queue' = buffer /\ buffer' = <<>> /\ UNCHANGED <<cycle, ctr>>
        /\ IF queue = <<>> THEN Log("Get", 0, FALSE, 0) ELSE Log("Get", 0, TRUE, queue[1])
SClean == /\ buffer' = <<>> /\ queue' = <<>> /\ UNCHANGED <<cycle, ctr>> /\ Log("Clean", 0, TRUE, 0)
SFlush == /\ buffer' = <<>> /\ queue' = <<>> /\ UNCHANGED <<cycle, ctr>> /\ Log("Flush", 0, TRUE, 0)
(* queries: CanAdd = pending empty, IsEmpty = both empty; logged through ok/ret *)
SQuery == /\ UNCHANGED <<buffer, queue, cycle, ctr>>
          /\ Log("Query", 0, buffer = <<>>, IF buffer = <<>> /\ queue = <<>> THEN 1 ELSE 0)
SimpleNext == SAdd \/ SGet \/ SClean \/ SFlush \/ SQuery

(* ---------------------------------- Queue --------------------------------- *)
(* buffer = items in insertion order; capacity QueueLen is advisory (IsFull)  *)
QPush == /\ buffer' = Append(buffer, ctr) /\ ctr' = ctr + 1 /\ UNCHANGED <<queue, cycle>>
         /\ Log("Push", ctr, Len(buffer') >= QueueLen, Len(buffer'))
(* one pass of Iterator(): visits every item in order, removing those matching pred *)
QIterRemove(p) == /\ buffer' = SelectSeq(buffer, LAMBDA t : ~Pred(p, t))
                  /\ UNCHANGED <<queue, cycle, ctr>>
                  /\ Log("IterRemove", p, TRUE, buffer)          \* ret = the visiting order
QueueNext == QPush \/ QIterRemove(1) \/ QIterRemove(2)

(* -------------------------------- Broadcast ------------------------------- *)
(* queue[id] = that listener's events [t, read] in notification order          *)
BcNotify == /\ queue' = [i \in 1 .. QueueLen |-> Append(queue[i], [t |-> ctr, read |-> FALSE])]
            /\ ctr' = ctr + 1 /\ UNCHANGED <<buffer, cycle>> /\ Log("Notify", ctr, TRUE, 0)
(* Read(id) drops the committed events and returns the others; the harness then commits those matching pred *)
BcRead(id, p) ==
  LET kept == SelectSeq(queue[id], LAMBDA e : ~e.read) IN
  /\ queue' = [queue EXCEPT ![id] = [k \in 1 .. Len(kept) |-> [kept[k] EXCEPT !.read = Pred(p, kept[k].t)]]]
  /\ UNCHANGED <<buffer, cycle, ctr>>
  /\ Log("Read", id * 10 + p, TRUE, [k \in 1 .. Len(kept) |-> kept[k].t])
BroadcastNext == BcNotify \/ \E id \in 1 .. QueueLen, p \in {1, 2} : BcRead(id, p)

Next == /\ Len(hist) < K
        /\ CASE Kind = "buffered" -> BufferedNext
             [] Kind = "simple" -> SimpleNext
             [] Kind = "queue" -> QueueNext
             [] Kind = "broadcast" -> BroadcastNext
Spec == Init /\ [][Next]_vars

(* ------------------------- the clauses of C14 (buffered) ------------------ *)
Delivered == SelectSeq(hist, LAMBDA h : h.op \in {"Get", "Pick"} /\ h.ok)
Items(ops) == {hist[i].arg : i \in {j \in 1 .. Len(hist) : hist[j].op \in ops}}
(* exactly once: no item is delivered twice *)
ExactlyOnce == \A i, j \in 1 .. Len(Delivered) : i # j => Delivered[i].ret # Delivered[j].ret
(* order: items delivered by Get come out in the order they entered the output side; for *)
(* disciplined producers that is the order in which they were added                      *)
GetRets == LET g == SelectSeq(hist, LAMBDA h : h.op = "Get" /\ h.ok) IN [i \in 1 .. Len(g) |-> g[i].ret]
FifoWhenDisciplined == Disciplined => \A i, j \in 1 .. Len(GetRets) : i < j => GetRets[i] < GetRets[j]
(* an item put in cycle c is not delivered in cycle c *)
AddCycle(t) == LET i == CHOOSE j \in 1 .. Len(hist) : hist[j].op = "Add" /\ hist[j].arg = t IN hist[i].cycle
OneCycleLater == \A i \in 1 .. Len(Delivered) :
                   Delivered[i].ret \in Items({"Add"}) => Delivered[i].cycle > AddCycle(Delivered[i].ret)
(* capacity, for producers that add only while the bus reports room *)
WithinCapacity == (Kind = "buffered" /\ Disciplined) => Len(buffer) <= BufferLen /\ Len(queue) <= QueueLen
(* Clean removes everything *)
CleanEmpties == \A i \in 1 .. Len(hist) : hist[i].op = "Clean" /\ Kind = "buffered" => hist[i].q.empty
(* a reverted item precedes every item still on the input side *)
RevertFirst == \A i \in 1 .. Len(hist) :
                 (hist[i].op = "Revert" /\ i = Len(hist)) => buffer # <<>> /\ buffer[1].t = hist[i].arg

Final == [buffer |-> IF Kind = "buffered" THEN [i \in 1 .. Len(buffer) |-> buffer[i].t] ELSE buffer,
          queue |-> IF Kind = "broadcast" THEN <<>> ELSE queue, cycle |-> cycle]
Emit == Len(hist) = K => PrintT(ToJson([kind |-> Kind, caps |-> <<QueueLen, BufferLen>>, hist |-> hist, final |-> Final]))
=======================================================================
