------------------------------- MODULE Pipe -------------------------------
(***************************************************************************)
(* Abstract model of the multi-issue pipelines (MVP-6.x .. 8): in-order     *)
(* dispatch by the control unit to Units execute units, out-of-order       *)
(* completion (latencies are nondeterministic: any enabled unit may        *)
(* finish), a write-back stage, flush on a taken control transfer, and     *)
(* the `ret` path.  The model is parameterised by the design decisions in  *)
(* which the variants differ or which the findings of known_findings.json  *)
(* put in question:                                                        *)
(*   Renaming     a younger writer of r may be dispatched while an older   *)
(*                write of r is in flight (MVP-6.3+)                       *)
(*   InOrderCommit  results become architectural in program order          *)
(*                (FALSE = completion order, as coded with renaming)       *)
(*   RetDrains    `ret` waits for every older instruction (FALSE = as      *)
(*                coded: only the write units are drained)                 *)
(*   FlushKeepsOlder  a flush lets the instructions older than the branch  *)
(*                finish (FALSE = MVP-6.0 as coded: every unit is reset)   *)
(*   FetchStopsAtRet  nothing after an unresolved `ret` is dispatched      *)
(*                (FALSE = as coded)                                       *)
(*   Speculate    instructions after an unresolved conditional branch are  *)
(*                dispatched (all multi-issue variants)                    *)
(*   CommitAfterResolve  a result younger than an unresolved branch is     *)
(*                held back until the branch resolves (the commit/rollback *)
(*                of MVP-6.2; FALSE = MVP-6.0/6.1)                         *)
(* TLC explores, for a small program, every dispatch/completion            *)
(* interleaving and checks the refinement to the sequential machine:       *)
(*   Refines   when the run has ended, registers and memory equal the      *)
(*             final state of RV32!Step  (C01, C04, C09, C10)              *)
(*   NoWrongPath  no instruction that is not on the sequential path ever   *)
(*             changes the architectural state  (C03)                      *)
(*   Terminates   the run ends (no deadlock before the end)  (C07)         *)
(* With every flag TRUE the model satisfies them for the bundled programs; *)
(* with the as-coded flags TLC produces the design-level counter-examples  *)
(* that correspond to findings F09b, F09c, F03a and F04a.  Operand values  *)
(* are read when an instruction is dispatched to a unit, results are       *)
(* computed then and held until write-back.                                *)
(***************************************************************************)
EXTENDS ProgCommon

CONSTANTS Units, Prog, Renaming, InOrderCommit, RetDrains, FlushKeepsOlder, FetchStopsAtRet, Speculate, CommitAfterResolve

VARIABLES regs, mem,      \* architectural state
          next,           \* index (0-based) of the next instruction to dispatch
          infl,           \* set of in-flight entries [idx, seq, eff, done]
          seqno,          \* dispatch counter (program order of the dispatched instances)
          ended,          \* the run has returned
          squashed,       \* sequence numbers dispatched on a path that was later flushed
          wrote           \* indices of the instructions whose result became architectural
vars == <<regs, mem, next, infl, seqno, ended, squashed, wrote>>

ProgramOf(name) ==
  CASE name = "ret_after_load" -> <<Ins("lw", "t0", "a0", "zero", 0, 0), Ins("ret", "zero", "zero", "zero", 0, 0)>>
    [] name = "code_after_ret" -> <<Ins("nop", "zero", "zero", "zero", 0, 0), Ins("ret", "zero", "zero", "zero", 0, 0), Ins("li", "t0", "zero", "zero", 5, 0)>>
    [] name = "load_then_jump" -> <<Ins("lw", "t0", "a0", "zero", 0, 0), Ins("j", "zero", "zero", "zero", 0, 3), Ins("li", "t2", "zero", "zero", 9, 0), Ins("nop", "zero", "zero", "zero", 0, 0)>>
    [] name = "waw" -> <<Ins("lw", "t0", "a0", "zero", 0, 0), Ins("li", "t0", "zero", "zero", 5, 0), Ins("mv", "t2", "t0", "zero", 0, 0)>>
    [] name = "raw_chain" -> <<Ins("li", "t0", "zero", "zero", 7, 0), Ins("addi", "t1", "t0", "zero", 1, 0), Ins("addi", "t2", "t1", "zero", 1, 0)>>
    [] name = "slow_branch_shadow" -> <<Ins("lw", "t0", "a0", "zero", 0, 0), Ins("bnez", "zero", "t0", "zero", 0, 3), Ins("li", "t2", "zero", "zero", 9, 0), Ins("nop", "zero", "zero", "zero", 0, 0)>>
    [] name = "shadow_store" -> <<Ins("li", "t0", "zero", "zero", 0, 0), Ins("beqz", "zero", "t0", "zero", 0, 3), Ins("sw", "zero", "a0", "t1", 4, 0), Ins("nop", "zero", "zero", "zero", 0, 0)>>
P == ProgramOf(Prog)

Regs0 == [r \in PRegs |-> IF r = "a0" THEN FromInt(64) ELSE IF r = "t1" THEN FromInt(7) ELSE Zero32]
SeqFinal == Final(P, Regs0, "ramp", 256, 32)
SeqPath == {SeqFinal.ev[k].i : k \in 1 .. Len(SeqFinal.ev)}

Init == /\ regs = Regs0 /\ mem = <<>> /\ next = 0 /\ infl = {} /\ seqno = 0 /\ ended = FALSE /\ squashed = {} /\ wrote = {}

Ops(e) == P[e.idx + 1]
WritesOf(e) == WriteRegs(Ops(e)) \ {"zero"}
ReadsOf(i) == ReadRegs(i) \ {"zero"}
IsCtl(i) == i.op \in CondOps \cup JumpOps
Older(e, f) == e.seq < f.seq

(* hazards seen by the control unit for instruction i *)
RAW(i) == \E e \in infl : (WritesOf(e) \cap ReadsOf(i)) # {}
WAW(i) == \E e \in infl : (WritesOf(e) \cap (WriteRegs(i) \ {"zero"})) # {}
MemBusy(i) == i.op \in LoadOps \cup StoreOps /\ \E e \in infl : Ops(e).op \in LoadOps \cup StoreOps
CtlBusy == \E e \in infl : IsCtl(Ops(e)) \/ Ops(e).op = "ret"

(* Dispatch: in order, one free unit, no hazard (WAW tolerated with renaming) *)
Dispatch ==
  /\ ~ended /\ next < Len(P) /\ Cardinality(infl) < Units
  /\ LET i == P[next + 1] IN
     /\ ~RAW(i) /\ (Renaming \/ ~WAW(i)) /\ ~MemBusy(i)
     \* unresolved control transfers block dispatch, except conditional branches when speculating
     /\ ~(\E e \in infl : ~e.done /\ IsCtl(Ops(e)) /\ ~(Speculate /\ Ops(e).op \in CondOps))
     /\ (FetchStopsAtRet => ~(\E e \in infl : Ops(e).op = "ret"))
     /\ (i.op = "ret" /\ RetDrains => infl = {})
     /\ infl' = infl \cup {[idx |-> next, seq |-> seqno, done |-> FALSE,
                            eff |-> Effect(i, 4 * next, regs, mem, "ramp", 256, Len(P))]}
     /\ seqno' = seqno + 1 /\ next' = next + 1
  /\ UNCHANGED <<regs, mem, ended, squashed, wrote>>

(* a unit finishes executing (any order): control instructions resolve here *)
Finish(e) ==
  /\ ~ended /\ e \in infl /\ ~e.done
  /\ IF Ops(e).op = "ret"
     THEN \* the run ends; what is still in flight is lost unless RetDrains made it wait
          /\ ended' = TRUE /\ infl' = infl \ {e} /\ UNCHANGED <<next, squashed>>
     ELSE IF IsCtl(Ops(e)) /\ e.eff.next # 4 * (e.idx + 1)
     THEN \* taken: flush.  Younger instructions are squashed; older ones survive only if FlushKeepsOlder
          /\ next' = e.eff.next \div 4
          /\ infl' = {[e EXCEPT !.done = TRUE]} \cup (IF FlushKeepsOlder THEN {f \in infl : Older(f, e)} ELSE {})
          /\ squashed' = squashed \cup {f.seq : f \in {g \in infl : Older(e, g)}}
          /\ UNCHANGED ended
     ELSE /\ infl' = (infl \ {e}) \cup {[e EXCEPT !.done = TRUE]} /\ UNCHANGED <<next, ended, squashed>>
  /\ UNCHANGED <<regs, mem, seqno, wrote>>

(* write-back: the result becomes architectural *)
WriteBack(e) ==
  /\ ~ended /\ e \in infl /\ e.done
  /\ (InOrderCommit => ~\E f \in infl : Older(f, e))
  /\ (CommitAfterResolve => ~\E f \in infl : Older(f, e) /\ ~f.done /\ IsCtl(Ops(f)))
  /\ regs' = IF e.eff.kind = "reg" THEN WReg(regs, e.eff.rd, e.eff.val) ELSE regs
  /\ mem' = IF e.eff.kind = "mem"
            THEN LET rng == e.eff.addr .. (e.eff.addr + Len(e.eff.bytes) - 1)
                 IN [a \in (DOMAIN mem) \cup rng |-> IF a \in rng THEN e.eff.bytes[a - e.eff.addr + 1] ELSE mem[a]]
            ELSE mem
  /\ infl' = infl \ {e}
  /\ wrote' = IF e.eff.kind \in {"reg", "mem"} THEN wrote \cup {e.idx} ELSE wrote
  /\ UNCHANGED <<next, seqno, ended, squashed>>

(* running past the last instruction ends the run once the pipeline is empty *)
RunOff == /\ ~ended /\ next >= Len(P) /\ infl = {} /\ ended' = TRUE
          /\ UNCHANGED <<regs, mem, next, infl, seqno, squashed, wrote>>

PStep == Dispatch \/ RunOff \/ \E e \in infl : Finish(e) \/ WriteBack(e)
Next == PStep \/ (ended /\ UNCHANGED vars)
Spec == Init /\ [][Next]_vars /\ WF_vars(PStep)
(* C07 at the design level: before the end some step is always possible *)
NoDeadlock == ended \/ ENABLED PStep

(* ---- properties ---- *)
SameMem == \A a \in (DOMAIN mem) \cup (DOMAIN SeqFinal.mem) : MemByte(mem, "ramp", a) = MemByte(SeqFinal.mem, "ramp", a)
Refines == ended => (regs = SeqFinal.regs /\ SameMem)
(* an instruction off the sequential path never reaches write-back *)
NoWrongPath == wrote \subseteq SeqPath
Terminates == <>ended
=======================================================================
