---------------------------- MODULE Families ----------------------------
(***************************************************************************)
(* Focused program families; each targets the mechanism of one property    *)
(* and defines its FOCUS SET: the registers / addresses whose final value  *)
(* is attributable to that mechanism.                                      *)
(*                                                                         *)
(*  Shadow  (C03)  producer ; branch or jump ; shadow ; join               *)
(*  RegDep  (C04)  register reuse sequences with a slow producer           *)
(*  Tail    (C09)  arbitrary last instructions before ret / the end        *)
(*  MemDep  (C10)  store/load pairs on overlapping bytes at distance 1..4  *)
(*  MemWalk (C05)  counted loops over a memory larger than every cache     *)
(*  Err     (C07)  programs reaching a defined error                       *)
(*  Timing  (C12)  one program, two initial states with equal path+addrs   *)
(* All are written as generator actions (Pick, then done) so that TLC      *)
(* enumerates each family exhaustively; expectations come from RV32!Step.  *)
(***************************************************************************)
EXTENDS ProgCommon

CONSTANTS Family, Size   \* Size: "small" | "large"

VARIABLES phase, c
vars == <<phase, c>>

I(op, rd, rs1, rs2, imm, tgt) == Ins(op, rd, rs1, rs2, imm, tgt)
Nop == I("nop", "zero", "zero", "zero", 0, 0)
Ret == I("ret", "zero", "zero", "zero", 0, 0)
Li(r, v) == I("li", r, "zero", "zero", v, 0)
Lw(rd, base, off) == I("lw", rd, base, "zero", off, 0)
Lb(rd, base, off) == I("lb", rd, base, "zero", off, 0)
Lh(rd, base, off) == I("lh", rd, base, "zero", off, 0)
Sw(src, base, off) == I("sw", "zero", base, src, off, 0)
Sb(src, base, off) == I("sb", "zero", base, src, off, 0)
Sh(src, base, off) == I("sh", "zero", base, src, off, 0)
Addi(rd, rs, v) == I("addi", rd, rs, "zero", v, 0)
AddI(rd, a, b) == I("add", rd, a, b, 0, 0)
B(op, a, b, t) == I(op, "zero", a, b, 0, t)
J(t) == I("j", "zero", "zero", "zero", 0, t)

Regs0(a0, a1, t0, t1, t2, t3) ==
  [r \in PRegs |-> CASE r = "a0" -> FromInt(a0) [] r = "a1" -> FromInt(a1) [] r = "t0" -> FromInt(t0)
                     [] r = "t1" -> FromInt(t1) [] r = "t2" -> FromInt(t2) [] r = "t3" -> FromInt(t3) [] OTHER -> Zero32]

SeqOver(S, n) == [1 .. n -> S]
UpTo(S, n) == UNION {SeqOver(S, k) : k \in 1 .. n}

(* ------------------------------- Shadow (C03) ------------------------------ *)
(* t0 = condition register; fast producer (li) or slow producer (lw from 0(a0)) *)
ShadowIns == { Li("t2", 9), Addi("t1", "t1", 1), I("mul", "t1", "t1", "t1", 0, 0), Sw("t1", "a0", 8), Sb("t1", "a0", 13),
               Lw("t2", "a0", 4), Lw("t2", "a1", 0), I("jal", "ra", "zero", "zero", 0, 1), Sw("t1", "a1", 4), Sh("t1", "a0", 18),
               \* instructions that raise a defined error if (and only if) they are executed
               I("div", "t2", "t1", "zero", 0, 0), I("rem", "t2", "t1", "t3", 0, 0), I("beq", "zero", "zero", "zero", 0, -1) }
ShadowBranches == { I("beqz", "zero", "t0", "zero", 0, 0), I("bnez", "zero", "t0", "zero", 0, 0),
                    I("beq", "zero", "t0", "t3", 0, 0), I("bne", "zero", "t0", "t3", 0, 0),
                    I("blt", "zero", "t0", "t3", 0, 0), I("bge", "zero", "t0", "t3", 0, 0),
                    I("bltu", "zero", "t0", "t3", 0, 0), I("bgeu", "zero", "t0", "t3", 0, 0),
                    I("ble", "zero", "t0", "t3", 0, 0), I("j", "zero", "zero", "zero", 0, 0) }
(* memory at 64..67 holds the word the slow producer loads: image "zero" -> 0, "ones" -> -1 *)
ShadowProg(slow, v, br, sh, pad) ==
  LET prod == IF slow THEN <<Lw("t0", "a0", 0)>> ELSE <<Li("t0", v)>>
      nb == Len(prod) + 1                                 \* 1-based position of the branch
      tgt == nb + Len(sh)                                 \* 0-based index of the join
      join == <<Addi("t3", "t3", 100)>> \o [k \in 1 .. pad |-> Nop]
      sh2 == [k \in 1 .. Len(sh) |-> IF sh[k].op = "jal" THEN [sh[k] EXCEPT !.tgt = tgt] ELSE sh[k]]
  IN prod \o <<[br EXCEPT !.tgt = tgt]>> \o sh2 \o join
ShadowFocusRegs(sh) == UNION {WriteRegs(sh[k]) : k \in 1 .. Len(sh)} \ {"zero"}
ShadowFocusAddrs(sh, a0, a1) ==
  UNION { IF sh[k].op \in StoreOps
          THEN LET b == (IF sh[k].rs1 = "a0" THEN a0 ELSE a1) + sh[k].imm IN b .. (b + Width(sh[k].op) - 1)
          ELSE {} : k \in 1 .. Len(sh) }
ShadowCases ==
  { x \in { <<slow, v, br, sh, img>> : slow \in BOOLEAN, v \in {0, -1}, br \in ShadowBranches,
                                     sh \in {<<>>} \cup UpTo(ShadowIns, IF Size = "large" THEN 2 ELSE 1), img \in {"zero", "ones"} } :   \* <<>>: a branch to the very next instruction
      (x[1] => x[2] = 0) /\ (~x[1] => x[5] = "zero") }
ShadowCase(x) ==
  LET slow == x[1] v == x[2] br == x[3] sh == x[4] img == x[5]
      p == ShadowProg(slow, v, br, sh, 2)
      r0 == Regs0(64, 128, 77, 5, 6, 0)
      fin == Final(p, r0, img, 256, 64)
      taken == \E k \in 1 .. Len(fin.ev) : fin.ev[k].t /\ fin.ev[k].i = 1
  IN CaseRec("Shadow", p, r0, img, 256, fin,
             IF taken THEN ShadowFocusRegs(sh) ELSE {}, IF taken THEN ShadowFocusAddrs(sh, 64, 128) ELSE {},
             Tags(p, fin), [taken |-> taken, slow |-> slow])

(* Shadow, second shape: the line of the shadow store is already Modified in some L1 (an earlier   *)
(* load + store), k independent ALU instructions vary the dispatch alignment, the jump is always   *)
(* taken; third shape: the shadow holds a jump whose target lies BEYOND the target of the branch.  *)
Shadow2Cases == { <<"warm", k, br, st>> : k \in 0 .. 6, br \in {"beq", "j"}, st \in {Sw("t1", "a1", 48), Sb("t1", "a1", 33), Sh("t1", "a1", 50)} }
                \cup { <<"far", k, br, Nop>> : k \in 0 .. 3, br \in {"bnez", "blt", "bgeu"} }
                \* fifth shape: both operands of the branch are produced by the two instructions before it (the branch
                \* waits in the dispatch queue) and the shadow starts with a jump / a link jump / another branch
                \cup { <<"pend", k, br, sj>> : k \in 0 .. 3, br \in {"beq2", "bge2"}, sj \in {J(0), I("jal", "ra", "zero", "zero", 0, 0), B("beq", "zero", "zero", 0)} }
                \* fourth shape: an instruction that raises an error if executed, right behind a taken transfer that
                \* resolves at once, at every dispatch alignment (k fillers)
                \cup { <<"trap", k, br, tr>> : k \in 0 .. 4, br \in {"beq", "j", "bnez1"},
                                              tr \in {I("div", "t2", "t1", "zero", 0, 0), I("rem", "t2", "t1", "t3", 0, 0), I("beq", "zero", "zero", "zero", 0, -1)} }
Shadow2Case(x) ==
  LET fill == [i \in 1 .. x[2] |-> Nop]   \* fillers must not create register hazards (a renamed WAW is a finding class of its own)
      \* warm: two loads occupy two cores, a dependent add waits for both, a store makes line 128 Modified in one L1
      pre == IF x[1] = "warm" THEN <<Lw("t0", "a0", 0), Lw("t2", "a1", 32), AddI("t2", "t0", "t2"), Sw("t1", "a1", 40)>> \o fill
             ELSE IF x[1] = "trap" THEN <<Li("t0", 1)>> \o fill
             ELSE IF x[1] = "pend" THEN fill \o <<Li("t0", 7), Li("t1", 7)>>
             ELSE <<Lw("t0", "a0", 0)>> \o fill
      nb == Len(pre)                                     \* 0-based index of the branch
      br == CASE x[3] = "beq" -> B("beq", "zero", "zero", nb + 3) [] x[3] = "j" -> J(nb + 3)
              [] x[3] = "bnez" -> B("bnez", "t0", "zero", nb + 2) [] x[3] = "blt" -> B("blt", "t3", "t0", nb + 2)
              [] x[3] = "bgeu" -> B("bgeu", "t0", "t3", nb + 2)
              [] x[3] = "bnez1" -> B("bnez", "t0", "zero", nb + 3)
              [] x[3] = "beq2" -> B("beq", "t0", "t1", nb + 2) [] x[3] = "bge2" -> B("bge", "t0", "t1", nb + 2)
      p == IF x[1] \in {"warm", "trap"}
           THEN pre \o <<br, x[4], Li("t2", 9), Addi("t3", "t3", 100), Addi("t1", "t3", 1), Nop>>
           \* far: branch -> join (nb+2); shadow jump -> far (nb+4); join: addi; j end; far: li t2,77; end: nop
           ELSE IF x[1] = "pend"
           THEN pre \o <<br, [x[4] EXCEPT !.tgt = nb + 4], Addi("t3", "t3", 100), J(nb + 5), Li("t2", 77), Nop, Nop>>
           ELSE pre \o <<br, J(nb + 4), Addi("t3", "t3", 100), J(nb + 5), Li("t2", 77), Nop, Nop>>
      r0 == Regs0(64, 128, 77, 5, 6, 0)
      fin == Final(p, r0, "ones", 256, 64)
      sh == IF x[1] \in {"warm", "trap"} THEN <<x[4], Li("t2", 9)>> ELSE <<Li("t2", 77)>>
  IN CaseRec("Shadow2", p, r0, "ones", 256, fin, ShadowFocusRegs(sh) \cup {"t3"} \cup (IF x[1] = "pend" THEN {"ra"} ELSE {}), ShadowFocusAddrs(sh, 64, 128), Tags(p, fin), [taken |-> TRUE, shape |-> x[1]])

(* ------------------------------- RegDep (C04) ------------------------------ *)
RegDepIns == { Lw("t0", "a0", 0), Li("t0", 5), Addi("t0", "t0", 1), AddI("t1", "t0", "t0"), I("mv", "t0", "t1", "zero", 0, 0),
               Addi("t1", "t0", 2), I("mul", "t1", "t1", "t0", 0, 0), Li("t1", 3), I("sub", "t0", "t1", "t0", 0, 0),
               Lw("t1", "a0", 4), I("mv", "t2", "t0", "zero", 0, 0), AddI("t2", "t2", "t1"),
               AddI("t2", "t1", "t0"), I("mul", "t3", "t0", "t0", 0, 0),
               Sw("t1", "a1", 64),    \* a store miss keeps the write path busy while registers are produced and consumed
               I("mv", "t1", "t1", "zero", 0, 0),    \* a self-move still is a pending write of its register
               Addi("a0", "a0", 4), Lh("t1", "a0", 2),   \* the base register of a load is produced by the instruction before it
               Addi("zero", "zero", 0), I("sub", "t2", "zero", "t1", 0, 0) }   \* a write to the zero register, a reader of zero and of a pending register
RegDepCore == RegDepIns \ { Addi("a0", "a0", 4), Lh("t1", "a0", 2), I("mv", "t1", "t1", "zero", 0, 0), Addi("zero", "zero", 0), I("sub", "t2", "zero", "t1", 0, 0) }
(* all sequences up to 3 over every template; the thorough tier adds length 4 over the core templates *)
RegDepCases == { <<s, img>> : s \in UpTo(RegDepIns, 3) \cup (IF Size = "large" THEN SeqOver(RegDepCore, 4) ELSE {}), img \in {"ramp"} }
RegDepCase(x) ==
  LET p == x[1] \o <<Nop>>
      r0 == Regs0(64, 128, -5, 7, 1, 0)
      fin == Final(p, r0, x[2], 256, 64)
  IN CaseRec("RegDep", p, r0, x[2], 256, fin, {"t0", "t1", "t2", "t3"}, {}, Tags(p, fin), [n |-> Len(x[1])])

(* Tail, second shape: stores immediately before ret to a line that one core owns Modified while *)
(* that core is busy, after an eviction made the control unit refresh its protocol snapshot.      *)
(* The finding classes for ret are conservative (they ignore that the stores occupy the units);   *)
(* for this shape the class is narrowed to what is observed: the load is lost on MVP-8 with 3     *)
(* cores (tag tail2_load_dropped), the last store on MVP-4/5 and the store during the line fetch  *)
(* on MVP-6.x with >= 2 units keep their general tags.                                            *)
Tail2Cases == { <<k, n>> : k \in {0, 2, 4, 6, 8, 10}, n \in {1, 2} }
Tail2Case(x) ==
  LET fill == [i \in 1 .. x[1] |-> Nop]
      last == IF x[2] = 2 THEN <<Sw("t0", "a0", 8), Sw("t0", "a0", 12)>> ELSE <<Sw("t0", "a0", 8)>>
      p == <<Addi("t0", "zero", 5), Sw("t0", "a0", 0), Lw("t1", "a1", 0), Sw("t0", "a1", 4)>> \o fill \o last \o <<Ret>>
      r0 == Regs0(64, 128, 1, 7, 3, 0)
      fin == Final(p, r0, "ramp", 256, 64)
      tags == (Tags(p, fin) \ {"ret_drops_inflight_load", "ret_drops_inflight"}) \cup {"tail2_load_dropped"}
  IN CaseRec("Tail2", p, r0, "ramp", 256, fin, {"t0", "t1"}, (64 .. 79) \cup (128 .. 135), tags, [fill |-> x[1], stores |-> x[2]])

(* -------------------------------- Tail (C09) ------------------------------- *)
(* prologue warms line 64 (so that later accesses to it hit) and leaves line 128 cold *)
TailIns == { Lw("t0", "a1", 0), Lw("t0", "a0", 4), Sw("t1", "a1", 8), Sw("t1", "a0", 8), Addi("t2", "t2", 3),
             I("mul", "t2", "t2", "t1", 0, 0), Lb("t1", "a1", 5), Sb("t2", "a0", 12), AddI("t2", "t0", "t1") }
TailCases == { <<s, exit, warm>> : s \in UpTo(TailIns, IF Size = "large" THEN 3 ELSE 2), exit \in {"ret", "end"}, warm \in BOOLEAN }
TailCase(x) ==
  LET tail == x[1]
      pro == IF x[3] THEN <<Lw("t3", "a0", 0), Addi("t3", "t3", 1), Nop, Nop>> ELSE <<Nop>>
      p == pro \o tail \o (IF x[2] = "ret" THEN <<Ret>> ELSE <<>>)
      r0 == Regs0(64, 128, 1, 7, 3, 0)
      fin == Final(p, r0, "high", 256, 64)
      fr == UNION {WriteRegs(tail[k]) : k \in 1 .. Len(tail)} \ {"zero"}
      fa == UNION { IF tail[k].op \in StoreOps
                    THEN LET b == (IF tail[k].rs1 = "a0" THEN 64 ELSE 128) + tail[k].imm IN b .. (b + Width(tail[k].op) - 1)
                    ELSE {} : k \in 1 .. Len(tail) }
  IN CaseRec("Tail", p, r0, "high", 256, fin, fr, fa, Tags(p, fin), [exit |-> x[2], warm |-> x[3]])

(* ------------------------------- MemDep (C10) ------------------------------ *)
(* first access through a0, second through a1 (both hold the same address 64), distance 1..4 *)
MemPairs == { <<Sw("t1", "a0", 0), Lw("t2", "a1", 0)>>, <<Sw("t1", "a0", 0), Lb("t2", "a1", 1)>>, <<Sb("t1", "a0", 2), Lw("t2", "a1", 0)>>,
              <<Sh("t1", "a0", 2), Lh("t2", "a1", 2)>>, <<Sb("t1", "a0", 3), Lb("t2", "a1", 3)>>, <<Sw("t1", "a0", 4), Lw("t2", "a1", 0)>>,
              <<Lw("t2", "a0", 0), Sw("t1", "a1", 0)>>, <<Lb("t2", "a0", 1), Sw("t1", "a1", 0)>>, <<Lw("t2", "a0", 0), Sb("t1", "a1", 2)>>,
              <<Sw("t1", "a0", 0), Sw("t0", "a1", 0)>>, <<Sw("t1", "a0", 0), Sb("t0", "a1", 1)>>, <<Sb("t1", "a0", 1), Sw("t0", "a1", 0)>>,
              <<Sh("t1", "a0", 0), Sh("t0", "a1", 0)>> }
Fillers == { Nop, Addi("t3", "t3", 1), Li("t3", 4) }
(* busy: 1 or 2 older store misses to other lines keep the write path busy (and its queue full) while the pair executes *)
MemDepCases == { <<pr, d, f, warm, busy>> : pr \in MemPairs, d \in 1 .. (IF Size = "large" THEN 4 ELSE 3), f \in Fillers,
                                          warm \in BOOLEAN, busy \in 0 .. 2 }
MemDepCase(x) ==
  LET pr == x[1] d == x[2]
      \* warm: the line is loaded first and both address registers are made to depend on that load,
      \* so that the pair executes once the line is resident
      pro == IF x[4] THEN <<Lw("t3", "a0", 8), I("andi", "t3", "t3", "zero", 0, 0), AddI("a0", "a0", "t3"), AddI("a1", "a1", "t3")>> ELSE <<>>
      bz == [j \in 1 .. x[5] |-> Sw("t0", "a1", 64 * j)]
      p == pro \o bz \o <<pr[1]>> \o [k \in 1 .. (d - 1) |-> x[3]] \o <<pr[2]>> \o <<Nop, Nop>>
      r0 == Regs0(64, 64, -2, 287454020, 0, 0)
      fin == Final(p, r0, "ramp", 256, 64)
  IN CaseRec("MemDep", p, r0, "ramp", 256, fin, {"t2"}, 64 .. 71, Tags(p, fin), [d |-> d, warm |-> x[4], busy |-> x[5]])

(* ------------------------------- MemWalk (C05) ----------------------------- *)
(* loop 1 walks `count` elements with `stride` from `first`, doing `mix`; loop 2 re-reads them and sums into t2 *)
Mixes == {"l", "s", "ls", "sl", "rmw", "ssl", "hot", "wrap"}   \* "wrap": the address wraps inside 2 KB (32 lines), every line is revisited within one loop
HotAddr == 5760   \* "hot": one line is read-modified-written in every iteration of both loops while the walk streams past it
Body(mix, w) ==
  LET L == IF w = 1 THEN Lb("t0", "a0", 0) ELSE IF w = 2 THEN Lh("t0", "a0", 0) ELSE Lw("t0", "a0", 0)
      S == IF w = 1 THEN Sb("t1", "a0", 0) ELSE IF w = 2 THEN Sh("t1", "a0", 0) ELSE Sw("t1", "a0", 0)
  IN CASE mix = "l" -> <<L, AddI("t2", "t2", "t0")>>
       [] mix = "s" -> <<S, Addi("t1", "t1", 3)>>
       [] mix = "ls" -> <<L, AddI("t2", "t2", "t0"), S, Addi("t1", "t1", 3)>>
       [] mix = "sl" -> <<S, L, AddI("t2", "t2", "t0"), Addi("t1", "t1", 3)>>
       \* two store misses in a row keep the write path busy while the second line is re-read
       [] mix = "ssl" -> <<S, [S EXCEPT !.imm = 64], [L EXCEPT !.imm = 64], AddI("t2", "t2", "t0"), Addi("t1", "t1", 3)>>
       [] mix = "wrap" -> <<L, AddI("t2", "t2", "t0")>>
       [] mix = "hot" -> <<Lw("t0", "ra", 0), Addi("t0", "t0", 1), Sw("t0", "ra", 0), L, AddI("t2", "t2", "t0")>>
       [] mix = "rmw" -> <<L, Addi("t0", "t0", 1), IF w = 1 THEN Sb("t0", "a0", 0) ELSE IF w = 2 THEN Sh("t0", "a0", 0) ELSE Sw("t0", "a0", 0)>>
WalkProg(mix, w, stride, count, first) ==
  LET b == Body(mix, w)
      pre == IF mix = "hot" THEN <<Li("ra", HotAddr)>> ELSE <<>>
      l1 == Len(pre) + 2                             \* 0-based index of loop 1 head
      rd == IF w = 1 THEN Lb("t0", "a1", 0) ELSE IF w = 2 THEN Lh("t0", "a1", 0) ELSE Lw("t0", "a1", 0)
      hot2 == IF mix = "hot" THEN <<Lw("t0", "ra", 0), AddI("t2", "t2", "t0")>> ELSE <<>>
      wrap0 == IF mix = "wrap" THEN <<I("andi", "a0", "a0", "zero", 2047, 0)>> ELSE <<>>
      wrap1 == IF mix = "wrap" THEN <<I("andi", "a1", "a1", "zero", 2047, 0)>> ELSE <<>>
      \* Two loop forms.  Bottom-tested: a taken conditional branch closes every iteration (variants that
      \* assume "not taken" flush each time).  Top-tested and closed by a jump: the only taken conditional
      \* branch is the exit, so that those variants run the whole walk without a flush.  The walks that
      \* start at offset 60 (and the wrap mix) use the second form.
      closed == mix = "wrap" \/ first % 64 = 60
      body1 == b \o <<Addi("a0", "a0", stride)>> \o wrap0 \o <<Addi("t3", "t3", -1)>>
      body2 == <<rd, AddI("t2", "t2", "t0")>> \o hot2 \o <<Addi("a1", "a1", stride)>> \o wrap1 \o <<Addi("t3", "t3", -1)>>
      x1 == l1 + 1 + Len(body1) + 1                  \* closed form: index after loop 1
      loop1 == IF closed THEN <<I("beqz", "zero", "t3", "zero", 0, x1)>> \o body1 \o <<J(l1)>>
               ELSE body1 \o <<I("bnez", "zero", "t3", "zero", 0, l1)>>
      l2 == l1 + Len(loop1) + 2
      x2 == l2 + 1 + Len(body2) + 1
      loop2 == IF closed THEN <<I("beqz", "zero", "t3", "zero", 0, x2)>> \o body2 \o <<J(l2)>>
               ELSE body2 \o <<I("bnez", "zero", "t3", "zero", 0, l2)>>
  IN pre \o <<Li("a0", first), Li("t3", count)>> \o loop1 \o <<Li("a1", first), Li("t3", count)>> \o loop2 \o <<Nop>>
WalkCases == { <<"hot", w, 128, 40, first>> : w \in {1, 2, 4}, first \in {0, 60} }   \* more L3 lines than MVP-8's L3 holds stream past the hot line
             \cup
             { <<"wrap", w, 64, 80, first>> : w \in {1, 2, 4}, first \in {0, 60} }
             \cup
             { <<mix, w, stride, count, first>> :
                 mix \in Mixes \ {"hot", "wrap"}, w \in {1, 2, 4},
                 stride \in (IF Size = "large" THEN {4, 64, 68, 128, 132} ELSE {64, 68}),
                 count \in (IF Size = "large" THEN {18, 36, 40} ELSE {20}),
                 first \in (IF Size = "large" THEN {0, 4, 60, 64, 100, -1} ELSE {0, 60, -1}) }   \* -1: the walk ends at the top of memory
WalkMem == 8192
WalkCase(x) ==
  LET first == IF x[5] = -1 THEN WalkMem - x[4] * x[3] ELSE x[5]
      p == WalkProg(x[1], x[2], x[3], x[4], first)
      r0 == Regs0(0, 0, 0, 17, 0, 0)
      fin == Final(p, r0, "ramp", WalkMem, 2000)
  IN CaseRec("MemWalk", p, r0, "ramp", WalkMem, fin, {"t2"}, {}, Tags(p, fin),
             [mix |-> x[1], w |-> x[2], stride |-> x[3], count |-> x[4], first |-> x[5]])

(* --------------------------------- Err (C07) ------------------------------- *)
ErrIns == { I("div", "t2", "t1", "t0", 0, 0), I("rem", "t2", "t1", "t0", 0, 0), I("j", "zero", "zero", "zero", 0, -1),
            I("beqz", "zero", "t0", "zero", 0, -1), I("jal", "ra", "zero", "zero", 0, -1), I("bne", "zero", "t1", "t0", 0, -1) }
ErrPrefix == { <<>>, <<Nop>>, <<Li("t3", 1), Addi("t3", "t3", 1)>>, <<Lw("t3", "a0", 0)>>, <<Sw("t1", "a0", 0), Nop>>,
               <<Lw("t3", "a0", 0), Addi("t3", "t3", 1), Nop>> }
(* the divisor arrives late (loaded zero) and a jump / taken branch follows the faulting instruction *)
ErrSlowPre == { <<Lw("t0", "a0", 0)>>, <<Lw("t0", "a0", 0), Nop>>, <<Li("t3", 1), Lw("t0", "a0", 0)>> }
ErrSlowPost == { <<J(0)>>, <<B("beqz", "zero", "zero", 0), Nop>>, <<I("jal", "ra", "zero", "zero", 0, 0)>>, <<Nop, J(0)>> }
ErrCases == { <<pre, e, post>> : pre \in ErrPrefix, e \in ErrIns, post \in {<<>>, <<Nop>>, <<Li("t2", 1), Ret>>} }
            \cup { <<pre, e, post>> : pre \in ErrSlowPre, e \in {I("div", "t2", "t1", "t0", 0, 0), I("rem", "t2", "t1", "t0", 0, 0)}, post \in ErrSlowPost }
ErrCase(x) ==
  LET slow == x[1] \in ErrSlowPre
      p0 == x[1] \o <<x[2]>> \o x[3]
      \* jumps of the "slow" posts go to the end of the text
      p == [k \in 1 .. Len(p0) |-> IF slow /\ k > Len(x[1]) + 1 /\ p0[k].op \in {"j", "jal", "beqz"} THEN [p0[k] EXCEPT !.tgt = Len(p0)] ELSE p0[k]]
      r0 == IF slow THEN Regs0(64, 128, 9, 7, 0, 0) ELSE Regs0(64, 128, 0, 7, 0, 0)
      img == IF slow THEN "zero" ELSE "ramp"
      fin == Final(p, r0, img, 256, 64)
  IN CaseRec("Err", p, r0, img, 256, fin, {}, {}, Tags(p, fin), [depth |-> Len(x[1])])

(* -------------------------------- Timing (C12) ----------------------------- *)
(* value-only variation: same program, same addresses and path, different data registers *)
TimingProgs == { <<AddI("t2", "t0", "t1"), I("mul", "t2", "t2", "t0", 0, 0), Sw("t2", "a0", 0), Lw("t1", "a0", 0), Nop>>,
                 <<I("xor", "t2", "t0", "t1", 0, 0), I("sll", "t2", "t2", "t0", 0, 0), I("slt", "t1", "t0", "t2", 0, 0), Nop>>,
                 <<Sb("t0", "a0", 1), Lb("t1", "a0", 1), AddI("t2", "t1", "t1"), Sh("t2", "a1", 2), Nop>>,
                 <<Lw("t2", "a0", 0), AddI("t2", "t2", "t0"), Sw("t2", "a1", 4), I("sub", "t1", "t1", "t2", 0, 0), Nop, Nop>>,
                 <<I("div", "t2", "t0", "t3", 0, 0), I("rem", "t1", "t0", "t3", 0, 0), I("and", "t2", "t2", "t1", 0, 0), Nop>> }
(* stores whose data may or may not equal what memory already holds *)
TimingStores == { <<Sw("t0", "a0", 0), Nop>>, <<Sb("t1", "a1", 3), Sw("t0", "a0", 4), Nop, Nop>>, <<Sw("t0", "a0", 0), Lw("t2", "a0", 0), Nop>>,
                  <<Sh("t0", "a0", 2), AddI("t2", "t0", "t1"), Nop>>,
                  \* a half-word store whose VALUE, read as an address, would fall into another line than its address does
                  \* (lines 128 and 0 are made Modified first; image zero: the loaded bases are 0)
                  <<Lw("t2", "zero", 0), Sh("t3", "zero", 128), Nop, Nop, Nop, Lw("a1", "t2", 64), Sh("t3", "t2", 8), Nop, Nop, Nop, Nop, Sh("t0", "a1", 130)>> }
TimingVals == { <<1, 2>>, <<-1, 65536>>, <<2147483647, -2147483647>>, <<0, 0>>, <<5, 9>>, <<1000, 9>> }
TimingCases == { <<p, v, img>> : p \in TimingProgs \cup TimingStores, v \in TimingVals, img \in {"ramp", "zero"} }
TimingCase(x) ==
  LET p == x[1]
      r0 == Regs0(64, 128, x[2][1], x[2][2], 0, 3)
      fin == Final(p, r0, x[3], 256, 64)
  IN CaseRec("Timing", p, r0, x[3], 256, fin, {}, {}, Tags(p, fin), [group |-> 0])

(* --------------------------------- Call (C03, C01) -------------------------- *)
(* a leaf function called from several sites and returning through jalr: the same   *)
(* indirect jump is executed with different targets; the instruction after it is    *)
(* never on the executed path                                                       *)
CallBodies == UpTo({Addi("t3", "t3", 5), Lw("t0", "a0", 0), Sw("t1", "a0", 8), I("mul", "t3", "t3", "t1", 0, 0)}, 2)
CallShadows == {Li("t1", 99), Sw("t2", "a0", 16), Lw("t2", "a1", 4)}
CallCases == { <<n, b, sh>> : n \in {2, 3}, b \in CallBodies, sh \in CallShadows }
CallCase(x) ==
  LET n == x[1] body == x[2]
      f == 2 * n + 1                                  \* 0-based index of the function
      calls == [k \in 1 .. (2 * n) |-> IF k % 2 = 1 THEN I("jal", "ra", "zero", "zero", 0, f)
                                       ELSE Addi(IF k = 2 THEN "t1" ELSE "t2", IF k = 2 THEN "t1" ELSE "t2", k)]
      endIdx == f + Len(body) + 2
      p == calls \o <<I("j", "zero", "zero", "zero", 0, endIdx)>> \o body
             \o <<I("jalr", "zero", "ra", "zero", 0, 0), x[3], Nop, Nop>>
      r0 == Regs0(64, 128, 1, 7, 3, 2)
      fin == Final(p, r0, "ramp", 256, 64)
      sh == <<x[3]>>
  IN CaseRec("Call", p, r0, "ramp", 256, fin, ShadowFocusRegs(sh), ShadowFocusAddrs(sh, 64, 128), Tags(p, fin), [taken |-> TRUE, calls |-> n])

(* ------------------------------- LineFill (C05, C10) ------------------------ *)
(* two loads of one cold line at different offsets (both may miss), then a store   *)
(* that depends on the second load and changes the line                             *)
LineFillCases == { <<o1, o2, o3, w>> : o1 \in {0, 4, 8, 60}, o2 \in {0, 4, 8, 60}, o3 \in {0, 12, 60}, w \in {1, 4} }
LineFillCase(x) ==
  LET st == IF x[4] = 1 THEN Sb("t2", "a1", x[3]) ELSE Sw("t2", "a1", x[3])
      p == <<Lw("t1", "a0", x[1]), Lw("t0", "a0", x[2]), Addi("t2", "t0", 1), st, Nop, Nop, Lw("t3", "a0", x[3]), Nop>>
      r0 == Regs0(64, 64, 0, 0, 0, 0)
      fin == Final(p, r0, "ramp", 256, 64)
  IN CaseRec("LineFill", p, r0, "ramp", 256, fin, {"t0", "t1", "t2", "t3"}, 64 .. 127, Tags(p, fin), [o1 |-> x[1], o2 |-> x[2]])

(* ---------------------- Repo: the repository's own programs ------------------- *)
(* array-sum, bubble-sort, string-copy, string-length and prime-number of res/*.asm,  *)
(* transcribed to abstract instructions, run from many more inputs than the suite     *)
(* uses and compared on the WHOLE final state (the suite reads one register or a few  *)
(* bytes).  These programs are inside the envelope by construction.                   *)
RepoRegs == {"ra", "a0", "a1", "a2", "t0", "t1", "t2", "t3", "t4", "t5"}
RR(a0, a1, a2) == [r \in RepoRegs |-> CASE r = "a0" -> FromInt(a0) [] r = "a1" -> FromInt(a1) [] r = "a2" -> FromInt(a2) [] OTHER -> Zero32]
WordsAt(base, vals) ==      \* memory contents: 32-bit little-endian words from `base`
  [a \in base .. (base + 4 * Len(vals) - 1) |-> Bytes(FromInt(vals[((a - base) \div 4) + 1]))[((a - base) % 4) + 1]]
BytesAt(base, bs) == [a \in base .. (base + Len(bs) - 1) |-> bs[a - base + 1]]

ArraySum == << Li("t0", 0), Li("t1", 0),
               B("bge", "t1", "a1", 9), I("slli", "t2", "t1", "zero", 2, 0), AddI("t2", "a0", "t2"), Lw("t2", "t2", 0),
               AddI("t0", "t0", "t2"), Addi("t1", "t1", 1), I("jal", "zero", "zero", "zero", 0, 2),
               I("mv", "a0", "t0", "zero", 0, 0), Ret >>
BubbleSort == << Li("t0", 0), Li("t1", 1),
                 B("bge", "t1", "a1", 13), I("slli", "t3", "t1", "zero", 2, 0), AddI("t3", "a0", "t3"),
                 Lw("t4", "t3", -4), Lw("t5", "t3", 0), B("ble", "t4", "t5", 11),
                 Li("t0", 1), Sw("t4", "t3", 0), Sw("t5", "t3", -4),
                 Addi("t1", "t1", 1), J(2),
                 B("bnez", "t0", "zero", 0), Ret >>
StringCopy == << Li("t0", 0),
                 B("bge", "t0", "a2", 9), AddI("t1", "a1", "t0"), Lb("t1", "t1", 0), B("beqz", "t1", "zero", 9),
                 AddI("t2", "a0", "t0"), Sb("t1", "t2", 0), Addi("t0", "t0", 1), J(1),
                 B("bge", "t0", "a2", 14), AddI("t1", "a0", "t0"), Sb("zero", "t1", 0), Addi("t0", "t0", 1), J(9),
                 Ret >>
StringLength == << Li("t0", 0),
                   AddI("t1", "t0", "a0"), Lb("t1", "t1", 0), B("beqz", "t1", "zero", 6), Addi("t0", "t0", 1), J(1),
                   Sw("t0", "zero", 0), Ret >>
PrimeNumber == << Lw("t0", "zero", 0), Addi("t1", "zero", 2), I("div", "t1", "t0", "t1", 0, 0), Addi("t1", "t1", 1), Addi("t2", "zero", 2),
                  B("bge", "t2", "t1", 10), I("rem", "t3", "t0", "t2", 0, 0), B("beq", "t3", "zero", 12), Addi("t2", "t2", 1), J(5),
                  Addi("t0", "zero", 1), J(14),
                  Addi("t0", "zero", 0), J(14),
                  Addi("t1", "zero", 4), Sb("t0", "t1", 0), Addi("a0", "t1", 0), Addi("ra", "zero", 0), Ret >>

Perm(n, k) == [i \in 1 .. n |-> ((i * (7 + 2 * k) + 3 * k) % 23) - 9]      \* pseudo-random words incl. negatives and repeats
Str(len, k) == [i \in 1 .. len |-> ((i * 11 + k * 5) % 120) + 1] \o <<0>>  \* non-zero bytes then the terminator
RepoCases ==
  {<<"sum", n, k>> : n \in (IF Size = "large" THEN {0, 1, 2, 5, 16, 17, 33, 40} ELSE {0, 1, 5, 17}), k \in {0, 1}}
  \cup {<<"sort", n, k>> : n \in (IF Size = "large" THEN {1, 2, 3, 5, 8, 12} ELSE {1, 2, 5}), k \in (IF Size = "large" THEN 0 .. 3 ELSE {0, 1})}
  \cup {<<"copy", len, n>> : len \in (IF Size = "large" THEN {0, 1, 7, 20, 70} ELSE {0, 3, 20}), n \in (IF Size = "large" THEN {0, 1, 5, 20, 24, 80} ELSE {0, 5, 24})}
  \cup {<<"len", len, k>> : len \in (IF Size = "large" THEN {0, 1, 2, 30, 63, 64, 65, 130} ELSE {0, 1, 30, 65}), k \in {0}}
  \cup {<<"prime", n, k>> : n \in (IF Size = "large" THEN 2 .. 60 ELSE {2, 3, 4, 9, 17, 25, 49, 53}), k \in {0}}
RepoCase(x) ==
  LET kind == x[1]
      p == CASE kind = "sum" -> ArraySum [] kind = "sort" -> BubbleSort [] kind = "copy" -> StringCopy
             [] kind = "len" -> StringLength [] kind = "prime" -> PrimeNumber
      r0 == CASE kind = "sum" -> RR(0, x[2], 0) [] kind = "sort" -> RR(0, x[2], 0) [] kind = "copy" -> RR(256, 0, x[3])
              [] kind = "len" -> RR(8, 0, 0) [] kind = "prime" -> RR(0, 0, 0)
      m0 == CASE kind = "sum" -> WordsAt(0, Perm(x[2], x[3])) [] kind = "sort" -> WordsAt(0, Perm(x[2], x[3]))
              [] kind = "copy" -> BytesAt(0, Str(x[2], 1)) [] kind = "len" -> BytesAt(8, Str(x[2], 2))
              [] kind = "prime" -> WordsAt(0, <<x[2]>>)
      fin == FinalM(p, r0, m0, "zero", 512, 6000)
      \* the class predicates are quadratic in the length of the run; the only repository programs that
      \* fall into a finding class are string-length and string-copy (a branch on a just-loaded byte with work in its shadow)
      tags == IF kind \in {"len", "copy"} THEN {"shadow_of_slow_branch"} ELSE {}
  IN CaseRecM("Repo", p, r0, m0, "zero", 512, fin, {}, {}, tags, [kind |-> kind, a |-> x[2], b |-> x[3]])

(* ------------------------------- Unroll (C05, C07) -------------------------- *)
(* straight-line walks (no branch, hence no pipeline flush): n accesses at stride 64  *)
(* from a possibly unaligned first address evict the first line, which is then        *)
(* accessed again and used                                                            *)
UnrollCases == { <<first, n, st>> : first \in {0, 4, 60}, n \in {17, 18}, st \in BOOLEAN }
UnrollCase(x) ==
  LET first == x[1] n == x[2]
      acc(k) == IF x[3] /\ k % 3 = 0 THEN <<Sw("t1", "a0", first + 64 * (k - 1))>> ELSE <<Lw("t0", "a0", first + 64 * (k - 1))>>
      RECURSIVE Walk(_)
      Walk(k) == IF k > n THEN <<>> ELSE acc(k) \o Walk(k + 1)
      p == Walk(1) \o <<Lw("t2", "a0", first), AddI("t3", "t2", "t0"), Sw("t3", "a0", first + 8), Nop, Nop>>
      r0 == Regs0(0, 0, 0, 77, 0, 0)
      fin == Final(p, r0, "ramp", 2048, 64)
  IN CaseRec("Unroll", p, r0, "ramp", 2048, fin, {"t0", "t2", "t3"}, {}, Tags(p, fin), [first |-> first, n |-> n])

(* ------------------------------ Misaligned (C12) ---------------------------- *)
(* accesses that are not naturally aligned but stay inside one cache line: the        *)
(* simulator executes them byte-wise; the cycle ledgers of MVP-1..3 charge them as one *)
(* access                                                                              *)
MisCases == { <<op, off, k>> : op \in {"lw", "lh", "sw", "sh"}, off \in {1, 2, 3, 5, 7}, k \in {0, 1} }
MisCase(x) ==
  LET acc == CASE x[1] = "lw" -> Lw("t0", "a0", x[2]) [] x[1] = "lh" -> Lh("t0", "a0", x[2])
               [] x[1] = "sw" -> Sw("t1", "a0", x[2]) [] x[1] = "sh" -> Sh("t1", "a0", x[2])
      p == IF x[3] = 0 THEN <<acc, AddI("t2", "t0", "t1"), Nop>> ELSE <<Lw("t3", "a0", 8), acc, Lw("t2", "a0", 4), Ret>>
      r0 == Regs0(64, 128, 0, 287454020, 0, 0)
      fin == Final(p, r0, "ramp", 256, 64)
  IN CaseRec("Misaligned", p, r0, "ramp", 256, fin, {"t0", "t2"}, 64 .. 75, Tags(p, fin), [op |-> x[1], off |-> x[2]])

(* ------------------------------- Oob (C08 only) ------------------------------ *)
(* Programs that touch bytes beyond the end of memory.  The sequential machine gives them no meaning   *)
(* (status "oob"), so no property about results applies - but C08 does: whatever a variant does with    *)
(* them (zero-fill, panic), it must do the same every time, also after other machines ran in the       *)
(* process.  read-modify-write of a byte/word beyond memory, then a second access to that line.         *)
OobCases == { <<base, off, ld, st>> : base \in {256, 320, 1024}, off \in {0, 4, 60}, ld \in {"lw", "lb"}, st \in {"sw", "sb"} }
OobCase(x) ==
  LET p == <<I(x[3], "t0", "a0", "zero", x[2], 0), Addi("t0", "t0", 1), I(x[4], "zero", "a0", "t0", x[2], 0),
             I(x[3], "t1", "a0", "zero", x[2], 0), I("lw", "t2", "a0", "zero", 0, 0), Addi("t2", "t2", 3)>>
      r0 == Regs0(x[1], 128, 0, 5, 6, 0)
      fin == Final(p, r0, "ramp", 256, 64)
  IN CaseRec("Oob", p, r0, "ramp", 256, fin, {}, {}, {"out_of_range"}, [base |-> x[1], off |-> x[2]])

(* ------------------------------- FarChain (C12, C01) ------------------------ *)
(* n blocks of 17 instructions; each block starts with a jump to the next one, so that every executed  *)
(* instruction is a taken jump that leaves the instruction window / line it sits in.                    *)
FarChainCases == { <<n, kind>> : n \in 2 .. 5, kind \in {"j", "jal", "beq"} }
FarChainCase(x) ==
  LET n == x[1]
      Jmp(t) == CASE x[2] = "j" -> J(t) [] x[2] = "jal" -> I("jal", "ra", "zero", "zero", 0, t) [] OTHER -> B("beq", "zero", "zero", t)
      block(i) == <<Jmp(17 * i)>> \o [k \in 1 .. 16 |-> Addi("t2", "t2", 1)]      \* block i - 1 jumps to the start of block i
      RECURSIVE Blocks(_)
      Blocks(i) == IF i > n THEN <<>> ELSE block(i) \o Blocks(i + 1)
      p == Blocks(1) \o <<Addi("t1", "t1", 7), Nop>>
      r0 == Regs0(64, 128, 77, 5, 6, 0)
      fin == Final(p, r0, "ramp", 256, 64)
  IN CaseRec("FarChain", p, r0, "ramp", 256, fin, {"t1", "t2", "ra"}, {}, Tags(p, fin), [taken |-> TRUE, n |-> n])

(* ------------------------------- FarBack (C03) ------------------------------ *)
(* A taken transfer k instructions before the END of the program text whose target lies in an         *)
(* instruction line that was jumped over at the start (so it is fetched through an instruction-cache   *)
(* miss after the flush), while the wrong-path fetch runs past the last instruction.                   *)
FarBackCases == { <<k, br>> : k \in 0 .. 4, br \in {"beq", "j", "bnez"} }
FarBackCase(x) ==
  LET k == x[1]
      \* the target block (24..26) shares no instruction line with the start (0) or with the tail (48..),
      \* whether lines are aligned to 16 instructions or start at the first missing pc
      br == CASE x[2] = "beq" -> B("beq", "zero", "zero", 24) [] x[2] = "j" -> J(24) [] OTHER -> B("bnez", "t0", "zero", 24)
      p == <<J(48)>> \o [i \in 1 .. 23 |-> Nop]
           \o <<Addi("t3", "t3", 100), Addi("t1", "t3", 1), J(50 + k)>> \o [i \in 1 .. 21 |-> Nop]   \* 24 .. 26, padding
           \o <<Li("t0", 1), br>>                                                                    \* 48, 49
           \o [i \in 1 .. k |-> Li("t2", 9)]                                                         \* the shadow, then the end of the text
      r0 == Regs0(64, 128, 77, 5, 6, 0)
      fin == Final(p, r0, "ramp", 256, 64)
  IN CaseRec("FarBack", p, r0, "ramp", 256, fin, {"t1", "t2", "t3"}, {}, Tags(p, fin), [taken |-> TRUE, k |-> k, br |-> x[2]])

(* ------------------------------- EndAt (C09) ------------------------------ *)
(* Straight-line programs of n instructions that end by running past the last instruction; the last    *)
(* instruction has a visible effect.  n around the multiples of an instruction line (16 instructions): *)
(* the last instruction is then the first one of a line that has to be fetched.                        *)
EndAtCases == { <<n, kind>> : n \in {15, 16, 17, 18, 31, 32, 33, 34, 49}, kind \in {"reg", "mem"} }
EndAtCase(x) ==
  LET n == x[1]
      last == IF x[2] = "reg" THEN Addi("t1", "t1", 7) ELSE Sw("t1", "a0", 4)
      p == [i \in 1 .. (n - 1) |-> IF i % 5 = 0 THEN Addi("t2", "t2", 1) ELSE Nop] \o <<last>>
      r0 == Regs0(64, 128, 77, 5, 6, 0)
      fin == Final(p, r0, "ramp", 256, 64)
  IN CaseRec("EndAt", p, r0, "ramp", 256, fin, {"t1", "t2"}, 68 .. 71, Tags(p, fin), [n |-> n, kind |-> x[2]])

Cases == CASE Family = "FarChain" -> FarChainCases [] Family = "Oob" -> OobCases [] Family = "FarBack" -> FarBackCases [] Family = "EndAt" -> EndAtCases [] Family = "Shadow" -> ShadowCases [] Family = "Shadow2" -> Shadow2Cases [] Family = "Tail2" -> Tail2Cases [] Family = "Misaligned" -> MisCases [] Family = "Repo" -> RepoCases [] Family = "Unroll" -> UnrollCases [] Family = "Call" -> CallCases [] Family = "LineFill" -> LineFillCases
           [] Family = "RegDep" -> RegDepCases [] Family = "Tail" -> TailCases
           [] Family = "MemDep" -> MemDepCases [] Family = "MemWalk" -> WalkCases [] Family = "Err" -> ErrCases
           [] Family = "Timing" -> TimingCases
MkCase(x) == CASE Family = "FarChain" -> FarChainCase(x) [] Family = "FarBack" -> FarBackCase(x) [] Family = "EndAt" -> EndAtCase(x) [] Family = "Oob" -> OobCase(x) [] Family = "Shadow" -> ShadowCase(x) [] Family = "Shadow2" -> Shadow2Case(x) [] Family = "Tail2" -> Tail2Case(x) [] Family = "Misaligned" -> MisCase(x) [] Family = "Repo" -> RepoCase(x) [] Family = "Unroll" -> UnrollCase(x) [] Family = "Call" -> CallCase(x) [] Family = "LineFill" -> LineFillCase(x) [] Family = "RegDep" -> RegDepCase(x) [] Family = "Tail" -> TailCase(x)
               [] Family = "MemDep" -> MemDepCase(x) [] Family = "MemWalk" -> WalkCase(x) [] Family = "Err" -> ErrCase(x)
               [] Family = "Timing" -> TimingCase(x)

(* several initial states so that TLC's workers share the (expensive) MemWalk evaluations *)
Parts == IF Family = "MemWalk" THEN Mixes \X {1, 2, 4}
         ELSE IF Family = "Repo" THEN {<<k, m>> : k \in {"sum", "sort", "copy", "len", "prime"}, m \in 0 .. 2} ELSE {<<>>}
Init == phase = "gen" /\ c \in {[fam |-> "none", part |-> p] : p \in Parts}
Next == /\ phase = "gen" /\ phase' = "done"
        /\ \E x \in Cases : (Family = "MemWalk" => <<x[1], x[2]>> = c.part)
                             /\ (Family = "Repo" => <<x[1], x[2] % 3>> = c.part) /\ LET k == MkCase(x) IN (k.misal => Family = "Misaligned") /\ (k.exp.status \in {"ret", "end", "err"} \/ Family = "Oob") /\ c' = k
Spec == Init /\ [][Next]_vars
Emit == phase = "done" => PrintT(ToJson(c))
=======================================================================
