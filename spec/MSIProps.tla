----------------------------- MODULE MSIProps -----------------------------
(***************************************************************************)
(* The clauses of C06, stated once over a VIEW of the coherence state and  *)
(* used twice: on the design model (MSI.tla, exhaustively by TLC) and on   *)
(* every state logged from the real code (MSITrace.tla).                   *)
(*                                                                         *)
(* A view V is a record                                                    *)
(*   cores : set of core ids          lines : set of line ids              *)
(*   st[c][l]   \in {0,1,2}  protocol state (0 invalid, 1 shared, 2 modified)*)
(*   cnt[c][l]  number of L1 lines of core c covering line l               *)
(*   dat[c][l]  identity (version / hash) of the bytes of c's copy         *)
(*   next[l]    identity of the same bytes in the next level (L3 / memory) *)
(*   semr[l], semw[l]  per-line lock counters                              *)
(*   busy[c][l] a request of c on l holds its lock and has not completed   *)
(*   cmd[c][l]  pending snoop command for (c,l): 0 none, 1 evict, 2 wb     *)
(*   mis[c][l]  a copy of c covering l is not size-aligned                 *)
(***************************************************************************)
EXTENDS Integers, FiniteSets

(* a transfer of line l is in progress at core c *)
InTransfer(V, c, l) == V.busy[c][l] \/ V.cmd[c][l] # 0

(* at most one core holds the line Modified, and then no other core holds it Shared *)
SWMR(V) == \A l \in V.lines :
             LET ms == {c \in V.cores : V.st[c][l] = 2}
                 ss == {c \in V.cores : V.st[c][l] = 1}
             IN Cardinality(ms) <= 1 /\ (ms # {} => ss = {})

(* a Shared line is byte-identical to the next level *)
SharedClean(V) == \A c \in V.cores, l \in V.lines :
                    (V.st[c][l] = 1 /\ V.cnt[c][l] >= 1) => V.dat[c][l] = V.next[l]

(* outside a transfer, a core holds the line in L1 exactly when its state is not Invalid *)
Presence(V) == \A c \in V.cores, l \in V.lines :
                 ~InTransfer(V, c, l) => ((V.cnt[c][l] >= 1) <=> (V.st[c][l] # 0))

(* L1 never holds two copies of one line, and lines are size-aligned *)
NoDuplicate(V) == \A c \in V.cores, l \in V.lines : V.cnt[c][l] <= 1
Aligned(V) == \A c \in V.cores, l \in V.lines : ~V.mis[c][l]

(* per-line lock counters never go negative *)
SemNonNegative(V) == \A l \in V.lines : V.semr[l] >= 0 /\ V.semw[l] >= 0

(* ---- legal steps: how the coherence state of one (core, line) may change from one ---- *)
(* ---- observed state V to the next W (an action property on the design model, and ---- *)
(* ---- a check on consecutive logged implementation states)                         ---- *)
(* the protocol state rises (I->S, I->M, S->M) only for a core that has a request on   *)
(* the line in progress, and falls to Invalid only through a snoop command to that     *)
(* core; Modified never becomes Shared directly                                        *)
LegalState(V, W, c, l) ==
  LET a == V.st[c][l] b == W.st[c][l] IN
  \/ a = b
  \/ (b > a /\ V.busy[c][l])
  \/ (b = 0 /\ a # 0 /\ V.cmd[c][l] # 0)
(* a line enters L1 only for a request in progress and leaves it only through a snoop  *)
(* command or when the request that fetched it is aborted                              *)
LegalPresence(V, W, c, l) ==
  LET a == V.cnt[c][l] b == W.cnt[c][l] IN
  \/ a = b
  \/ (b > a /\ V.busy[c][l])
  \/ (b < a /\ (V.cmd[c][l] # 0 \/ V.busy[c][l]))
(* lock counters move by what the requests in progress and completing can explain *)
LegalSem(V, W, l) ==
  LET n == Cardinality(V.cores) IN
  /\ W.semr[l] - V.semr[l] \in (0 - n) .. n
  /\ W.semw[l] - V.semw[l] \in {-1, 0, 1}
  /\ (W.semw[l] > 0 => W.semw[l] = 1)
LegalStep(V, W) ==
  /\ \A c \in V.cores, l \in V.lines : LegalState(V, W, c, l) /\ LegalPresence(V, W, c, l)
  /\ \A l \in V.lines : LegalSem(V, W, l)

AllClauses(V) == SWMR(V) /\ SharedClean(V) /\ Presence(V) /\ NoDuplicate(V) /\ Aligned(V) /\ SemNonNegative(V)
=======================================================================
