------------------------------- MODULE MSI -------------------------------
(***************************************************************************)
(* Design model of the MSI directory and the cache controllers of          *)
(* MVP-7.0 / 7.1 (proc/mvp7-0/msi.go, cc.go), structured like the code:    *)
(* one action per coroutine checkpoint.                                    *)
(*   StartRead / StartWrite   msi.rLock / msi.lock + the request commands  *)
(*   PendDone                 all snoop commands the request waits for done*)
(*   FetchDone                memory latency elapsed, line pushed into L1  *)
(*   AfterPush                (victim gone) data captured / L1 latency     *)
(*   Complete                 write performed, post(): state + unlock      *)
(*   Snoop(cmd)               evict or write-back executed by the target   *)
(*   Flush(c)                 cc.flush: abort both coroutines, release the *)
(*                            recorded locks                               *)
(* Line data is abstracted to a version number.  The C06 clauses are the   *)
(* operators of MSIProps applied to View; TLC checks them exhaustively     *)
(* for small constants.  C07: no deadlock and every started request        *)
(* completes (Live) when no flush intervenes.                              *)
(***************************************************************************)
EXTENDS Integers, Sequences, FiniteSets, TLC

P == INSTANCE MSIProps

CONSTANTS Cores, Lines, Cap, MaxOps, MaxFlush

VARIABLES st, sem, cmds, l1, mem, op, rls, wls, nv, opsLeft, flushLeft, panic

vars == <<st, sem, cmds, l1, mem, op, rls, wls, nv, opsLeft, flushLeft, panic>>

NoOp == [kind |-> "none", l |-> 0, phase |-> "idle", resp |-> "none", waitOn |-> {}, vict |-> {}, post |-> "none", data |-> 0]

Init ==
  /\ st = [c \in Cores |-> [l \in Lines |-> "I"]]
  /\ sem = [l \in Lines |-> [r |-> 0, w |-> 0]]
  /\ cmds = {}
  /\ l1 = [c \in Cores |-> <<>>]
  /\ mem = [l \in Lines |-> 0]
  /\ op = [c \in Cores |-> NoOp]
  /\ rls = [c \in Cores |-> {}]
  /\ wls = [c \in Cores |-> {}]
  /\ nv = 0
  /\ opsLeft = [c \in Cores |-> MaxOps]
  /\ flushLeft = MaxFlush
  /\ panic = "none"

InL1(c, l) == \E i \in 1..Len(l1[c]) : l1[c][i].l = l
Idx(c, l) == CHOOSE i \in 1..Len(l1[c]) : l1[c][i].l = l
Data(c, l) == l1[c][Idx(c, l)].v
Remove(s, l) == SelectSeq(s, LAMBDA e : e.l # l)
ToFront(s, l) == LET i == CHOOSE j \in 1..Len(s) : s[j].l = l IN <<s[i]>> \o Remove(s, l)

Others(c, l, states) == {c2 \in Cores \ {c} : st[c2][l] \in states}
WbCmds(c, l) == {[c |-> c2, l |-> l, k |-> "wb"] : c2 \in Others(c, l, {"M"})}
EvCmds(c, l) == {[c |-> c2, l |-> l, k |-> "evict"] : c2 \in Others(c, l, {"S"})}

Running == panic = "none"

(* ---------------- read / write start: msi.rLock / msi.lock ---------------- *)
StartRead(c, l) ==
  /\ Running /\ op[c].kind = "none" /\ opsLeft[c] > 0
  /\ LET s == st[c][l] IN
     \/ /\ s = "I" /\ sem[l].w = 0
        /\ sem' = [sem EXCEPT ![l].r = @ + 1]
        /\ cmds' = cmds \cup WbCmds(c, l)
        /\ op' = [op EXCEPT ![c] = [NoOp EXCEPT !.kind = "R", !.l = l, !.phase = "pend", !.resp = "fetch",
                                               !.waitOn = WbCmds(c, l), !.post = "toS_runlock"]]
     \/ /\ s = "M" /\ sem[l].w = 0 /\ sem[l].r = 0
        /\ sem' = [sem EXCEPT ![l].w = @ + 1]
        /\ cmds' = cmds
        /\ op' = [op EXCEPT ![c] = [NoOp EXCEPT !.kind = "R", !.l = l, !.phase = "pend", !.resp = "l1", !.post = "unlockW"]]
     \/ /\ s = "S" /\ sem[l].w = 0
        /\ sem' = [sem EXCEPT ![l].r = @ + 1]
        /\ cmds' = cmds
        /\ op' = [op EXCEPT ![c] = [NoOp EXCEPT !.kind = "R", !.l = l, !.phase = "pend", !.resp = "l1", !.post = "runlock"]]
  \* the lock is recorded according to its kind: a read of a Modified line holds the write lock
  /\ IF st[c][l] = "M" THEN wls' = [wls EXCEPT ![c] = @ \cup {l}] /\ rls' = rls
                       ELSE rls' = [rls EXCEPT ![c] = @ \cup {l}] /\ wls' = wls
  /\ UNCHANGED <<st, l1, mem, nv, opsLeft, flushLeft, panic>>

StartWrite(c, l) ==
  /\ Running /\ op[c].kind = "none" /\ opsLeft[c] > 0
  /\ sem[l].w = 0 /\ sem[l].r = 0
  /\ sem' = [sem EXCEPT ![l].w = @ + 1]
  /\ LET s == st[c][l] IN
     \/ /\ s = "I"
        /\ cmds' = cmds \cup WbCmds(c, l) \cup EvCmds(c, l)
        /\ op' = [op EXCEPT ![c] = [NoOp EXCEPT !.kind = "W", !.l = l, !.phase = "pend", !.resp = "fetch",
                                               !.waitOn = WbCmds(c, l) \cup EvCmds(c, l), !.post = "toM_unlockW"]]
     \/ /\ s = "M"
        /\ cmds' = cmds
        /\ op' = [op EXCEPT ![c] = [NoOp EXCEPT !.kind = "W", !.l = l, !.phase = "pend", !.resp = "l1", !.post = "unlockW"]]
     \/ /\ s = "S"
        /\ cmds' = cmds \cup WbCmds(c, l) \cup EvCmds(c, l)
        /\ op' = [op EXCEPT ![c] = [NoOp EXCEPT !.kind = "W", !.l = l, !.phase = "pend", !.resp = "l1",
                                               !.waitOn = WbCmds(c, l) \cup EvCmds(c, l), !.post = "toM_unlockW"]]
  /\ wls' = [wls EXCEPT ![c] = @ \cup {l}]
  /\ UNCHANGED <<st, l1, mem, rls, nv, opsLeft, flushLeft, panic>>

(* ---------------- pendings done ---------------- *)
PendDone(c) ==
  /\ Running /\ op[c].phase = "pend" /\ op[c].waitOn = {}
  /\ LET o == op[c] l == o.l IN
     IF o.resp = "l1" THEN
        IF o.kind = "R" THEN
           IF InL1(c, l)
           THEN /\ op' = [op EXCEPT ![c].phase = "l1", ![c].data = Data(c, l)]
                /\ l1' = [l1 EXCEPT ![c] = ToFront(@, l)]
                /\ panic' = panic
           ELSE /\ panic' = "read: value presence should have been checked first" /\ UNCHANGED <<op, l1>>
        ELSE /\ op' = [op EXCEPT ![c].phase = "l1"] /\ UNCHANGED <<l1, panic>>
     ELSE \* fetch
        IF o.kind = "R" /\ InL1(c, l)
        THEN /\ panic' = "read: invalid state (line already in L1)" /\ UNCHANGED <<op, l1>>
        ELSE /\ op' = [op EXCEPT ![c].phase = "fetch", ![c].data = mem[l]] /\ UNCHANGED <<l1, panic>>
  /\ UNCHANGED <<st, sem, cmds, mem, rls, wls, nv, opsLeft, flushLeft>>

EvictExtra(c, v) == CASE st[c][v] = "S" -> {[c |-> c, l |-> v, k |-> "evict"]}
                      [] st[c][v] = "M" -> {[c |-> c, l |-> v, k |-> "wb"]}
                      [] OTHER -> {}

FetchDone(c) ==
  /\ Running /\ op[c].phase = "fetch"
  /\ LET o == op[c] l == o.l IN
     IF InL1(c, l)
     THEN \* isAddressInL1 uses Get: moves to front, no push
          /\ l1' = [l1 EXCEPT ![c] = ToFront(@, l)]
          /\ cmds' = cmds
          /\ op' = [op EXCEPT ![c].phase = "afterPush"]
     ELSE LET nl == <<[l |-> l, v |-> o.data]>> \o l1[c] IN
          /\ l1' = [l1 EXCEPT ![c] = nl]
          /\ IF Len(nl) > Cap
             THEN LET v == nl[Len(nl)].l IN
                  /\ cmds' = cmds \cup EvictExtra(c, v)
                  /\ op' = [op EXCEPT ![c].phase = "evictWait", ![c].vict = EvictExtra(c, v)]
             ELSE /\ cmds' = cmds /\ op' = [op EXCEPT ![c].phase = "afterPush"]
  /\ UNCHANGED <<st, sem, mem, rls, wls, nv, opsLeft, flushLeft, panic>>

\* after push (possibly after the victim is gone): coReadFromL1 captures data / coWriteToL1 waits L1 latency
AfterPush(c) ==
  /\ Running /\ op[c].phase \in {"afterPush", "evictWait"} /\ op[c].vict = {}
  /\ LET o == op[c] l == o.l IN
     IF o.kind = "R" THEN
        IF InL1(c, l)
        THEN /\ op' = [op EXCEPT ![c].phase = "l1", ![c].data = Data(c, l)]
             /\ l1' = [l1 EXCEPT ![c] = ToFront(@, l)] /\ panic' = panic
        ELSE /\ panic' = "read: value presence should have been checked first (after fetch)" /\ UNCHANGED <<op, l1>>
     ELSE /\ op' = [op EXCEPT ![c].phase = "l1"] /\ UNCHANGED <<l1, panic>>
  /\ UNCHANGED <<st, sem, cmds, mem, rls, wls, nv, opsLeft, flushLeft>>

SemDec(s, l, f) == [s EXCEPT ![l][f] = @ - 1]

Complete(c) ==
  /\ Running /\ op[c].phase = "l1"
  /\ LET o == op[c] l == o.l IN
     /\ IF o.kind = "W"
        THEN IF InL1(c, l)
             THEN /\ l1' = [l1 EXCEPT ![c][Idx(c, l)].v = nv + 1] /\ nv' = nv + 1 /\ panic' = panic
             ELSE /\ panic' = "write: cache line doesn't exist" /\ UNCHANGED <<l1, nv>>
        ELSE UNCHANGED <<l1, nv, panic>>
     /\ CASE o.post = "toS_runlock" -> st' = [st EXCEPT ![c][l] = "S"] /\ sem' = SemDec(sem, l, "r")
          [] o.post = "runlock"     -> st' = st /\ sem' = SemDec(sem, l, "r")
          [] o.post = "unlockW"     -> st' = st /\ sem' = SemDec(sem, l, "w")
          [] o.post = "toM_unlockW" -> st' = [st EXCEPT ![c][l] = "M"] /\ sem' = SemDec(sem, l, "w")
     /\ rls' = [rls EXCEPT ![c] = @ \ {l}] /\ wls' = [wls EXCEPT ![c] = @ \ {l}]
  /\ op' = [op EXCEPT ![c] = NoOp]
  /\ opsLeft' = [opsLeft EXCEPT ![c] = @ - 1]
  /\ UNCHANGED <<cmds, mem, flushLeft>>

(* ---------------- snoop ---------------- *)
Release(o, cmd) == [o EXCEPT !.waitOn = @ \ {cmd}, !.vict = @ \ {cmd}]

Snoop(cmd) ==
  /\ Running /\ cmd \in cmds
  /\ LET c == cmd.c l == cmd.l IN
     IF cmd.k = "evict"
     THEN /\ l1' = [l1 EXCEPT ![c] = Remove(@, l)] /\ mem' = mem /\ panic' = panic
          /\ st' = [st EXCEPT ![c][l] = "I"]
          /\ cmds' = cmds \ {cmd}
          /\ op' = [c2 \in Cores |-> Release(op[c2], cmd)]
     ELSE IF InL1(c, l)
          THEN /\ mem' = [mem EXCEPT ![l] = Data(c, l)]
               /\ l1' = [l1 EXCEPT ![c] = Remove(@, l)] /\ panic' = panic
               /\ st' = [st EXCEPT ![c][l] = "I"]
               /\ cmds' = cmds \ {cmd}
               /\ op' = [c2 \in Cores |-> Release(op[c2], cmd)]
          ELSE /\ panic' = "snoop wb: memory address should exist" /\ UNCHANGED <<l1, mem, st, cmds, op>>
  /\ UNCHANGED <<sem, rls, wls, nv, opsLeft, flushLeft>>

(* ---------------- flush (cc.flush) ---------------- *)
Flush(c) ==
  /\ Running /\ flushLeft > 0
  /\ flushLeft' = flushLeft - 1
  /\ LET s1 == [l \in Lines |-> IF l \in rls[c] THEN [sem[l] EXCEPT !.r = @ - 1] ELSE sem[l]]
         s2 == [l \in Lines |-> IF l \in wls[c] THEN [s1[l] EXCEPT !.w = @ - 1] ELSE s1[l]]
     IN /\ sem' = s2
        /\ panic' = IF \E l \in Lines : s2[l].r < 0 THEN "read is negative"
                    ELSE IF \E l \in Lines : s2[l].w < 0 THEN "write is negative" ELSE panic
  /\ rls' = [rls EXCEPT ![c] = {}]
  /\ wls' = [wls EXCEPT ![c] = {}]
  /\ op' = [op EXCEPT ![c] = NoOp]
  /\ opsLeft' = [opsLeft EXCEPT ![c] = IF op[c].kind = "none" THEN @ ELSE @ - 1]
  \* dropUnownedLine: a line the aborted request already fetched but does not own yet leaves L1
  /\ l1' = [l1 EXCEPT ![c] = SelectSeq(@, LAMBDA e : ~((e.l \in rls[c] \/ e.l \in wls[c]) /\ st[c][e.l] = "I"))]
  /\ UNCHANGED <<st, cmds, mem, nv>>

Next ==
  \/ \E c \in Cores, l \in Lines : StartRead(c, l) \/ StartWrite(c, l)
  \/ \E c \in Cores : PendDone(c) \/ FetchDone(c) \/ AfterPush(c) \/ Complete(c) \/ Flush(c)
  \/ \E cmd \in cmds : Snoop(cmd)

Spec == Init /\ [][Next]_vars

Fair == \A c \in Cores : WF_vars(PendDone(c)) /\ WF_vars(FetchDone(c)) /\ WF_vars(AfterPush(c)) /\ WF_vars(Complete(c))
FairSnoop == \A c \in Cores, l \in Lines, k \in {"evict", "wb"} : WF_vars(Snoop([c |-> c, l |-> l, k |-> k]))
LiveSpec == Spec /\ Fair /\ FairSnoop

(* ---------------- view and C06 clauses ---------------- *)
Code(s) == CASE s = "I" -> 0 [] s = "S" -> 1 [] s = "M" -> 2
Copies(c, l) == Cardinality({i \in 1 .. Len(l1[c]) : l1[c][i].l = l})
View ==
  [ cores |-> Cores, lines |-> Lines,
    st |-> [c \in Cores |-> [l \in Lines |-> Code(st[c][l])]],
    cnt |-> [c \in Cores |-> [l \in Lines |-> Copies(c, l)]],
    dat |-> [c \in Cores |-> [l \in Lines |-> IF InL1(c, l) THEN Data(c, l) ELSE 0]],
    next |-> mem,
    semr |-> [l \in Lines |-> sem[l].r], semw |-> [l \in Lines |-> sem[l].w],
    busy |-> [c \in Cores |-> [l \in Lines |-> l \in rls[c] \/ l \in wls[c]]],
    cmd |-> [c \in Cores |-> [l \in Lines |-> IF [c |-> c, l |-> l, k |-> "evict"] \in cmds THEN 1
                                                 ELSE IF [c |-> c, l |-> l, k |-> "wb"] \in cmds THEN 2 ELSE 0]],
    mis |-> [c \in Cores |-> [l \in Lines |-> FALSE]] ]

SWMR == P!SWMR(View)
SharedClean == P!SharedClean(View)
Presence == P!Presence(View)
NoDuplicate == P!NoDuplicate(View)
SemNonNegative == P!SemNonNegative(View)
NoPanic == panic = "none"
(* every step of the design model is a legal step in the sense of MSIProps (action property) *)
LegalSteps == [][P!LegalStep(View, View')]_vars
Capacity == \A c \in Cores : Len(l1[c]) <= Cap + 1

(* C07 at the design level: with no flush, every request that was started completes *)
Done == \A c \in Cores : op[c].kind = "none"
Live == \A c \in Cores : (op[c].kind # "none") ~> (op[c].kind = "none")
(* the only states without a successor are the ones where every core used up its requests *)
NoDeadlock == (~ENABLED Next) => (\A c \in Cores : op[c].kind = "none" /\ (opsLeft[c] = 0 \/ panic # "none")) \/ panic # "none"
=======================================================================
