------------------------------ MODULE BusInd ------------------------------
(***************************************************************************)
(* Unbounded-in-time safety of the disciplined comp.BufferedBus design of  *)
(* spec/Bus.tla (C14), history-free: the clauses "in order", "a cycle      *)
(* later" and "within capacity" are carried by an inductive invariant that *)
(* Apalache discharges for every reachable state, not only for histories   *)
(* of K calls (./check busind):                                            *)
(*     Init => IndInv          (--init=Init    --length=0)                 *)
(*     IndInv /\ Next => IndInv'  (--init=IndInit --length=1)              *)
(* The actions are those of Bus.tla with Disciplined = TRUE, `Movable`     *)
(* written without recursion, and tags bounded by MaxTag so that every     *)
(* variable has a finite type for the symbolic encoding.                   *)
(***************************************************************************)
EXTENDS Integers, Sequences, Apalache

(* capacities and the tag/cycle horizon are definitions, not CONSTANTS: Apalache needs the   *)
(* capacity argument of FunAsSeq to be a constant expression (override with a copy to vary) *)
QueueLen == 2
BufferLen == 3
MaxTag == 8

VARIABLES
  \* @type: Seq({avail: Int, t: Int, at: Int, rev: Bool});
  buffer,
  \* @type: Seq({t: Int, at: Int, rev: Bool});
  queue,
  \* @type: Int;
  cycle,
  \* @type: Int;
  ctr

Init == buffer = <<>> /\ queue = <<>> /\ cycle = 1 /\ ctr = 1

Min(a, b) == IF a < b THEN a ELSE b

BAdd == /\ Len(buffer) # BufferLen /\ ctr < MaxTag
        /\ buffer' = Append(buffer, [avail |-> cycle + 1, t |-> ctr, at |-> cycle, rev |-> FALSE])
        /\ ctr' = ctr + 1 /\ UNCHANGED <<queue, cycle>>
BTick == /\ cycle < MaxTag /\ cycle' = cycle + 1 /\ UNCHANGED <<buffer, queue, ctr>>
BConnect == \E n \in 0 .. BufferLen :
            /\ n <= Min(Len(buffer), QueueLen - Len(queue))
            /\ \A i \in 1 .. BufferLen : i <= n => buffer[i].avail <= cycle
            /\ (n = Min(Len(buffer), QueueLen - Len(queue)) \/ buffer[n + 1].avail > cycle)
            /\ queue' = queue \o FunAsSeq([i \in 1 .. BufferLen |-> [t |-> buffer[i].t, at |-> buffer[i].at, rev |-> buffer[i].rev]], n, BufferLen)
            /\ buffer' = SubSeq(buffer, n + 1, Len(buffer))
            /\ UNCHANGED <<cycle, ctr>>
BGet == /\ queue # <<>> /\ queue' = Tail(queue) /\ UNCHANGED <<buffer, cycle, ctr>>
BPick == \E i \in 1 .. QueueLen :
         /\ i <= Len(queue)
         /\ queue' = SubSeq(queue, 1, i - 1) \o SubSeq(queue, i + 1, Len(queue))
         /\ UNCHANGED <<buffer, cycle, ctr>>
BDeleteLast == /\ buffer # <<>> /\ buffer' = SubSeq(buffer, 1, Len(buffer) - 1)
               /\ UNCHANGED <<queue, cycle, ctr>>
BClean == /\ buffer' = <<>> /\ queue' = <<>> /\ UNCHANGED <<cycle, ctr>>

Next == BAdd \/ BTick \/ BConnect \/ BGet \/ BPick \/ BDeleteLast \/ BClean

(* ------------------------------ the invariant ----------------------------- *)
WithinCapacity == Len(buffer) <= BufferLen /\ Len(queue) <= QueueLen
(* in order: tags increase along the output side, then along the input side *)
Ordered ==
  /\ \A i, j \in 1 .. QueueLen : (i < j /\ j <= Len(queue)) => queue[i].t < queue[j].t
  /\ \A i, j \in 1 .. BufferLen : (i < j /\ j <= Len(buffer)) => buffer[i].t < buffer[j].t
  /\ \A i \in 1 .. QueueLen, j \in 1 .. BufferLen :
       (i <= Len(queue) /\ j <= Len(buffer)) => queue[i].t < buffer[j].t
Fresh ==
  /\ \A i \in 1 .. QueueLen : i <= Len(queue) => (queue[i].t >= 1 /\ queue[i].t < ctr)
  /\ \A j \in 1 .. BufferLen : j <= Len(buffer) => (buffer[j].t >= 1 /\ buffer[j].t < ctr)
(* a cycle later: nothing on the input side is available later than the next cycle, *)
(* and availability cycles do not decrease along it                                 *)
Avail ==
  /\ \A j \in 1 .. BufferLen : j <= Len(buffer) => (buffer[j].avail = buffer[j].at + 1 /\ buffer[j].at >= 1)
  /\ \A i \in 1 .. QueueLen : i <= Len(queue) => (queue[i].at >= 1 /\ queue[i].at < cycle)   \* visible only a cycle later
  /\ \A j \in 1 .. BufferLen : j <= Len(buffer) => (buffer[j].avail >= 2 /\ buffer[j].avail <= cycle + 1)
  /\ \A i, j \in 1 .. BufferLen : (i < j /\ j <= Len(buffer)) => buffer[i].avail <= buffer[j].avail
IndInv == /\ cycle >= 1 /\ cycle <= MaxTag /\ ctr >= 1 /\ ctr <= MaxTag
          /\ WithinCapacity /\ Ordered /\ Fresh /\ Avail

(* ---------------- undisciplined producers (Bus.tla with Disciplined = FALSE) --------------- *)
(* Add without asking CanAdd, and Revert(t, cycle): an item put back at the head of the input   *)
(* side, available at once.  Capacity and tag order no longer hold; what remains inductive is  *)
(* that tags are delivered at most once (no tag is in the bus twice, all are below ctr) and    *)
(* that an item that was ADDED is never visible in the cycle it was added in.                  *)
BAddAny == /\ Len(buffer) < BufferLen + 2 /\ ctr < MaxTag
           /\ buffer' = Append(buffer, [avail |-> cycle + 1, t |-> ctr, at |-> cycle, rev |-> FALSE])
           /\ ctr' = ctr + 1 /\ UNCHANGED <<queue, cycle>>
BRevert == /\ Len(buffer) < BufferLen + 2 /\ ctr < MaxTag
           /\ buffer' = <<[avail |-> cycle, t |-> ctr, at |-> cycle, rev |-> TRUE]>> \o buffer
           /\ ctr' = ctr + 1 /\ UNCHANGED <<queue, cycle>>
BConnectU == \E n \in 0 .. BufferLen + 2 :
            /\ n <= Min(Len(buffer), QueueLen - Len(queue))
            /\ \A i \in 1 .. BufferLen + 2 : i <= n => buffer[i].avail <= cycle
            /\ (n = Min(Len(buffer), QueueLen - Len(queue)) \/ buffer[n + 1].avail > cycle)
            /\ queue' = queue \o FunAsSeq([i \in 1 .. BufferLen + 2 |-> [t |-> buffer[i].t, at |-> buffer[i].at, rev |-> buffer[i].rev]], n, BufferLen + 2)
            /\ buffer' = SubSeq(buffer, n + 1, Len(buffer))
            /\ UNCHANGED <<cycle, ctr>>
NextU == BAddAny \/ BRevert \/ BTick \/ BConnectU \/ BGet \/ BPick \/ BDeleteLast \/ BClean

BL2 == BufferLen + 2
IndInvU ==
  /\ cycle >= 1 /\ cycle <= MaxTag /\ ctr >= 1 /\ ctr <= MaxTag
  /\ Len(buffer) <= BL2 /\ Len(queue) <= QueueLen
  /\ \A i \in 1 .. QueueLen : i <= Len(queue) => (queue[i].t >= 1 /\ queue[i].t < ctr)
  /\ \A j \in 1 .. BL2 : j <= Len(buffer) => (buffer[j].t >= 1 /\ buffer[j].t < ctr)
  \* at most once: no tag is held twice
  /\ \A i, j \in 1 .. QueueLen : (i < j /\ j <= Len(queue)) => queue[i].t # queue[j].t
  /\ \A i, j \in 1 .. BL2 : (i < j /\ j <= Len(buffer)) => buffer[i].t # buffer[j].t
  /\ \A i \in 1 .. QueueLen, j \in 1 .. BL2 : (i <= Len(queue) /\ j <= Len(buffer)) => queue[i].t # buffer[j].t
  \* a cycle later, for added items
  /\ \A j \in 1 .. BL2 : (j <= Len(buffer) /\ ~buffer[j].rev) => (buffer[j].avail = buffer[j].at + 1 /\ buffer[j].at <= cycle)
  /\ \A i \in 1 .. QueueLen : (i <= Len(queue) /\ ~queue[i].rev) => queue[i].at < cycle
IndInitU ==
  /\ cycle \in 1 .. MaxTag /\ ctr \in 1 .. MaxTag
  /\ \E nb \in 0 .. BL2, nq \in 0 .. QueueLen :
     \E fb \in [1 .. BL2 -> [avail : 1 .. MaxTag + 1, t : 1 .. MaxTag, at : 1 .. MaxTag, rev : BOOLEAN]],
        fq \in [1 .. QueueLen -> [t : 1 .. MaxTag, at : 1 .. MaxTag, rev : BOOLEAN]] :
        /\ buffer = FunAsSeq(fb, nb, BL2)
        /\ queue = FunAsSeq(fq, nq, QueueLen)
  /\ IndInvU
ProbeNoRevVisible == \A i \in 1 .. QueueLen : i <= Len(queue) => ~queue[i].rev

(* ------------------------------- comp.Queue (Bus.tla, Kind = "queue") ----------------------- *)
(* `queue` holds the items in insertion order (capacity is advisory: one beyond QueueLen is     *)
(* admitted); one pass of the iterator removes the items matching a predicate.  Inductive:       *)
(* insertion order is kept by pushes and by removal during iteration (tags increase).           *)
QL1 == QueueLen + 1
QPred(p, t) == IF p = 1 THEN t % 2 = 0 ELSE t % 3 = 0
QPush == /\ Len(queue) < QL1 /\ ctr < MaxTag
         /\ queue' = Append(queue, [t |-> ctr, at |-> cycle, rev |-> FALSE])
         /\ ctr' = ctr + 1 /\ UNCHANGED <<buffer, cycle>>
QIterRemove(p) == LET \* @type: ({t: Int, at: Int, rev: Bool}) => Bool;
                      Keep(e) == ~QPred(p, e.t)
                  IN /\ queue' = SelectSeq(queue, Keep)
                     /\ UNCHANGED <<buffer, cycle, ctr>>
NextQ == QPush \/ QIterRemove(1) \/ QIterRemove(2)
IndInvQ ==
  /\ cycle = 1 /\ ctr >= 1 /\ ctr <= MaxTag /\ buffer = <<>> /\ Len(queue) <= QL1
  /\ \A i \in 1 .. QL1 : i <= Len(queue) => (queue[i].t >= 1 /\ queue[i].t < ctr)
  /\ \A i, j \in 1 .. QL1 : (i < j /\ j <= Len(queue)) => queue[i].t < queue[j].t
IndInitQ ==
  /\ cycle = 1 /\ ctr \in 1 .. MaxTag /\ buffer = <<>>
  /\ \E nq \in 0 .. QL1 : \E fq \in [1 .. QL1 -> [t : 1 .. MaxTag, at : 1 .. 1, rev : {FALSE}]] : queue = FunAsSeq(fq, nq, QL1)
  /\ IndInvQ
ProbeQShort == Len(queue) < 2

(* non-vacuity probes: each must be REFUTED from IndInit at length 0 / 1 *)
ProbeNotFull == ~(Len(buffer) = BufferLen /\ Len(queue) = QueueLen)
ProbeNoMove == Len(queue) = 0

IndInit ==
  /\ cycle \in 1 .. MaxTag /\ ctr \in 1 .. MaxTag
  /\ \E nb \in 0 .. BufferLen, nq \in 0 .. QueueLen :
     \E fb \in [1 .. BufferLen -> [avail : 1 .. MaxTag + 1, t : 1 .. MaxTag, at : 1 .. MaxTag, rev : BOOLEAN]], fq \in [1 .. QueueLen -> [t : 1 .. MaxTag, at : 1 .. MaxTag, rev : BOOLEAN]] :
        /\ buffer = FunAsSeq(fb, nb, BufferLen)
        /\ queue = FunAsSeq(fq, nq, QueueLen)
  /\ IndInv
=============================================================================
