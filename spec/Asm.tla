------------------------------- MODULE Asm -------------------------------
(***************************************************************************)
(* C11: a line-level model of the assembler front end (risc.Parse).        *)
(*                                                                         *)
(* A source text is a sequence of abstract lines:                          *)
(*   blank / comment        contribute nothing                             *)
(*   label  name            labels[name] = 4 * (instruction lines so far)  *)
(*   ins    instruction     one instruction, decoded operands = the named  *)
(*                          registers and decimal immediates               *)
(*   bad    malformation    the whole text must be rejected with an error  *)
(*   silent form            the documented grammar does not say: either    *)
(*                          outcome is allowed, only totality is checked   *)
(* Lines carry decorations (indentation, trailing comment, mnemonic case,  *)
(* $-prefixed registers, blanks around commas) that must not change the    *)
(* result.  The concrete rendering of an abstract line is done by the Go   *)
(* harness (harness/c11.go, a table look-up per form).                     *)
(* Mode "lines": TLC enumerates all texts of at most MaxLines lines over   *)
(* the line alphabet.  Mode "raw": all character strings of length         *)
(* <= MaxLines over a 11-character alphabet, for totality.                 *)
(***************************************************************************)
EXTENDS RV32, Json

CONSTANTS Mode, MaxLines, Rich   \* Rich: TRUE = full line alphabet, FALSE = reduced alphabet (for longer texts)

VARIABLES phase, lines, c
vars == <<phase, lines, c>>

I(op, rd, rs1, rs2, imm, tgt) == Ins(op, rd, rs1, rs2, imm, tgt)

(* one representative instruction per mnemonic, with varied registers and immediates *)
AllIns == {
  I("add", "t0", "t1", "t2", 0, 0), I("sub", "s10", "a7", "t6", 0, 0), I("and", "a0", "a0", "zero", 0, 0),
  I("or", "ra", "sp", "gp", 0, 0), I("xor", "tp", "s0", "s1", 0, 0), I("sll", "a1", "a2", "a3", 0, 0),
  I("srl", "a4", "a5", "a6", 0, 0), I("sra", "s2", "s3", "s4", 0, 0), I("slt", "s5", "s6", "s7", 0, 0),
  I("sltu", "s8", "s9", "s11", 0, 0), I("mul", "t3", "t4", "t5", 0, 0), I("div", "t0", "t1", "t2", 0, 0),
  I("rem", "t0", "t2", "t1", 0, 0),
  I("addi", "t0", "t1", "zero", -7, 0), I("andi", "a0", "a1", "zero", 255, 0), I("ori", "s1", "s2", "zero", 2047, 0),
  I("xori", "t6", "t5", "zero", -1, 0), I("slti", "a2", "a3", "zero", -2048, 0), I("slli", "t0", "t1", "zero", 3, 0),
  I("srli", "t2", "t3", "zero", 31, 0), I("srai", "t4", "t5", "zero", 1, 0),
  I("li", "t0", "zero", "zero", 2147483647, 0), I("li", "a7", "zero", "zero", -65536, 0),
  I("lui", "t1", "zero", "zero", 524288, 0), I("auipc", "t2", "zero", "zero", 1, 0), I("mv", "s10", "t6", "zero", 0, 0),
  I("lb", "t0", "t1", "zero", 1, 0), I("lh", "t2", "t3", "zero", -2, 0), I("lw", "a0", "sp", "zero", 8, 0),
  I("sb", "zero", "t1", "t0", 3, 0), I("sh", "zero", "t3", "t2", 2, 0), I("sw", "zero", "sp", "a0", -4, 0),
  I("beq", "zero", "t0", "t1", 0, 7), I("bne", "zero", "a0", "zero", 0, 7), I("blt", "zero", "s1", "s2", 0, 7),
  I("bge", "zero", "t5", "t6", 0, 7), I("bltu", "zero", "a1", "a2", 0, 7), I("bgeu", "zero", "a3", "a4", 0, 7),
  I("ble", "zero", "s3", "s4", 0, 7), I("beqz", "zero", "t0", "zero", 0, 7), I("bnez", "zero", "ra", "zero", 0, 7),
  I("j", "zero", "zero", "zero", 0, 7), I("jal", "ra", "zero", "zero", 0, 7), I("jal", "zero", "zero", "zero", 0, 7),
  I("jalr", "ra", "t1", "zero", 4, 0), I("nop", "zero", "zero", "zero", 0, 0), I("ret", "zero", "zero", "zero", 0, 0) }
FewIns == { I("addi", "t0", "t1", "zero", -7, 0), I("lw", "a0", "sp", "zero", 8, 0), I("sh", "zero", "t3", "t2", 2, 0),
            I("beqz", "zero", "t0", "zero", 0, 7), I("nop", "zero", "zero", "zero", 0, 0), I("ret", "zero", "zero", "zero", 0, 0) }

ASSUME {i.op : i \in AllIns} = AllOps

(* decorations of an instruction line (the harness renders them) *)
Decos == {"plain", "indent2", "tab", "comment", "commentcolon", "upper", "dollar", "commaspace", "nospace", "zeropad", "all"}
FewDecos == {"plain", "comment", "commentcolon", "zeropad"}

BadForms == {"missing_operand", "extra_operand", "unknown_register", "unknown_mnemonic", "hex_immediate",
             "word_immediate", "huge_immediate", "truncated_offset", "unclosed_offset", "garbage_after_register",
             "no_paren_offset", "empty_operand", "register_as_immediate", "lone_comma",
             "huge_offset", "huge_store_offset", "huge_addi", "huge_negative"}
(* the multi-line runs use a reduced set (the other forms are covered by the one- and two-line runs) *)
FewBad == BadForms \ {"huge_store_offset", "huge_addi", "huge_negative"}
SilentForms == {"label_with_comment", "tab_separator", "label_with_space", "colon_only", "digit_label"}

Line(k, ins, deco, name, form) == [k |-> k, ins |-> ins, deco |-> deco, name |-> name, form |-> form]
NoIns == I("nop", "zero", "zero", "zero", 0, 0)

LineAlphabet ==
  LET insSet == IF Rich THEN AllIns ELSE FewIns
      decoSet == IF Rich THEN Decos ELSE FewDecos IN
  {Line("blank", NoIns, d, "", "") : d \in {"empty", "spaces", "tab"}}
  \cup {Line("comment", NoIns, d, "", "") : d \in {"plain", "indented"}}
  \cup {Line("label", NoIns, d, n, "") : d \in {"plain", "indented"}, n \in {"L7", "loop"}}
  \cup {Line("ins", i, d, "", "") : i \in insSet, d \in decoSet}
  \cup {Line("bad", NoIns, "", "", f) : f \in (IF Rich THEN BadForms ELSE FewBad)}
  \cup {Line("silent", NoIns, "", "", f) : f \in SilentForms}

(* marked register file: every register holds a distinct small aligned value *)
RegOrder == <<"zero", "ra", "sp", "gp", "tp", "t0", "t1", "t2", "s0", "s1", "a0", "a1", "a2", "a3", "a4", "a5", "a6", "a7",
              "s2", "s3", "s4", "s5", "s6", "s7", "s8", "s9", "s10", "s11", "t3", "t4", "t5", "t6">>
Marked == [r \in {RegOrder[i] : i \in 2 .. 32} |-> FromInt(16 * (CHOOSE i \in 1 .. 32 : RegOrder[i] = r))]
MemSize == 1024

InsCase(i, pc) ==
  LET e == Effect(i, pc, Marked, <<>>, "ramp", MemSize, 64)
      after == IF e.kind = "reg" THEN WReg(Marked, e.rd, e.val) ELSE Marked
  IN [ ins |-> i, pc |-> pc, img |-> "ramp", regs0 |-> [r \in DOMAIN Marked |-> ToInt(Marked[r])],
       kind |-> e.kind, erd |-> e.rd, eval |-> ToInt(e.val), eaddr |-> e.addr, ebytes |-> e.bytes,
       eloads |-> e.loads, enext |-> e.next, regs1 |-> [r \in DOMAIN after |-> ToInt(after[r])],
       reads |-> ReadRegs(i) \ {"zero"}, writes |-> WriteRegs(i) \ {"zero"} ]

InsLines(ls) == SelectSeq(ls, LAMBDA l : l.k = "ins")
CountBefore(ls, n) == Len(InsLines(SubSeq(ls, 1, n - 1)))
LabelIdx(ls) == {n \in 1 .. Len(ls) : ls[n].k = "label"}
Names(ls) == {ls[n].name : n \in LabelIdx(ls)}
DupLabels(ls) == \E m, n \in LabelIdx(ls) : m # n /\ ls[m].name = ls[n].name

Expect(ls) == IF \E n \in 1 .. Len(ls) : ls[n].k = "bad" THEN "reject"
              ELSE IF (\E n \in 1 .. Len(ls) : ls[n].k = "silent") \/ DupLabels(ls) THEN "either"
              ELSE "accept"
(* label -> set of admissible addresses (one unless the label is defined twice) *)
Labels(ls) == [nm \in Names(ls) |-> {4 * CountBefore(ls, n) : n \in {m \in LabelIdx(ls) : ls[m].name = nm}}]

Program(ls) == [ mode |-> "lines", lines |-> ls, expect |-> Expect(ls), count |-> Len(InsLines(ls)), labels |-> Labels(ls),
                 cases |-> [k \in 1 .. Len(InsLines(ls)) |-> InsCase(InsLines(ls)[k].ins, 4 * (k - 1))], raw |-> <<>> ]

(* raw strings: indices into the harness' character table "a0- \t,():#\n" *)
Chars == 0 .. 10

Init == phase = "build" /\ lines = <<>> /\ c = [mode |-> "none"]
Extend == /\ phase = "build" /\ Len(lines) < MaxLines
          /\ IF Mode = "lines" THEN \E l \in LineAlphabet : lines' = Append(lines, l)
                               ELSE \E ch \in Chars : lines' = Append(lines, ch)
          /\ UNCHANGED <<phase, c>>
Seal == /\ phase = "build" /\ Len(lines) >= 1
        /\ c' = IF Mode = "lines" THEN Program(lines)
                ELSE [mode |-> "raw", lines |-> <<>>, expect |-> "either", count |-> 0, labels |-> <<>>, cases |-> <<>>, raw |-> lines]
        /\ phase' = "done" /\ UNCHANGED lines
Next == Extend \/ Seal
Spec == Init /\ [][Next]_vars
Emit == phase = "done" => PrintT(ToJson(c))
=======================================================================
