--------------------------- MODULE LineCacheInd ---------------------------
(***************************************************************************)
(* Unbounded-in-time safety of the line-cache design of spec/LineCache.tla *)
(* (C13, first half), history-free and with the contents of a line         *)
(* abstracted to a version number: `latest[b]` is the version last pushed  *)
(* or written for base b.  The inductive invariant (Apalache, ./check      *)
(* lcind) says that resident lines do not overlap, that at most one line   *)
(* beyond NumLines is resident (the victim reported by PushW, until the    *)
(* caller evicts it), and that every resident line holds the latest        *)
(* version of its base (a read returns the last write since insertion).    *)
(* `StepOK` states what makes it an LRU: a hit Get makes the line most     *)
(* recent and keeps the others in order; a line leaves only by Evict or as *)
(* the last (least recently used) line under a Push into a full cache.     *)
(***************************************************************************)
EXTENDS Integers, Sequences, Apalache

NumLines == 2
Bases == 1 .. 4          \* line numbers (base / LineLen)
MaxVer == 6
Cap1 == NumLines + 1

VARIABLES
  \* @type: Seq({base: Int, ver: Int});
  lines,
  \* @type: Int -> Int;
  latest,
  \* @type: Int;
  ctr,
  \* @type: {op: Str, b: Int, before: Seq({base: Int, ver: Int})};
  last

\* @type: (Seq({base: Int, ver: Int}), Int) => Bool;
ResidentIn(s, b) == \E i \in 1 .. Cap1 : i <= Len(s) /\ s[i].base = b
Resident(b) == ResidentIn(lines, b)
Without(b) == LET \* @type: ({base: Int, ver: Int}) => Bool;
                  Keep(l) == l.base # b
              IN SelectSeq(lines, Keep)

Init == /\ lines = <<>> /\ latest = [b \in Bases |-> 0] /\ ctr = 1
        /\ last = [op |-> "Init", b |-> 0, before |-> <<>>]

GetHit(b) == \E i \in 1 .. Cap1 :
  /\ i <= Len(lines) /\ lines[i].base = b
  /\ lines' = <<lines[i]>> \o Without(b)
  /\ UNCHANGED <<latest, ctr>> /\ last' = [op |-> "GetHit", b |-> b, before |-> lines]
Evict(b) == /\ Resident(b) /\ lines' = Without(b)
            /\ UNCHANGED <<latest, ctr>> /\ last' = [op |-> "Evict", b |-> b, before |-> lines]
Write(b) == \E i \in 1 .. Cap1 :
  /\ i <= Len(lines) /\ lines[i].base = b /\ ctr < MaxVer
  /\ lines' = [lines EXCEPT ![i] = [base |-> b, ver |-> ctr]]
  /\ latest' = [latest EXCEPT ![b] = ctr] /\ ctr' = ctr + 1
  /\ last' = [op |-> "Write", b |-> b, before |-> lines]
Push(b) == /\ ~Resident(b) /\ Len(lines) <= NumLines /\ ctr < MaxVer
           /\ lines' = IF Len(lines) = NumLines
                       THEN <<[base |-> b, ver |-> ctr]>> \o SubSeq(lines, 1, NumLines - 1)
                       ELSE <<[base |-> b, ver |-> ctr]>> \o lines
           /\ latest' = [latest EXCEPT ![b] = ctr] /\ ctr' = ctr + 1
           /\ last' = [op |-> "Push", b |-> b, before |-> lines]
PushW(b) == /\ ~Resident(b) /\ Len(lines) <= NumLines /\ ctr < MaxVer
            /\ lines' = <<[base |-> b, ver |-> ctr]>> \o lines
            /\ latest' = [latest EXCEPT ![b] = ctr] /\ ctr' = ctr + 1
            /\ last' = [op |-> "PushW", b |-> b, before |-> lines]

Next == \E b \in Bases : GetHit(b) \/ Evict(b) \/ Write(b) \/ Push(b) \/ PushW(b)

NoOverlap == \A i, j \in 1 .. Cap1 : (i < j /\ j <= Len(lines)) => lines[i].base # lines[j].base
Bounded == Len(lines) <= Cap1
Latest == \A i \in 1 .. Cap1 : i <= Len(lines) => (lines[i].base \in Bases /\ lines[i].ver = latest[lines[i].base])
Versions == /\ ctr >= 1 /\ ctr <= MaxVer
            /\ \A b \in Bases : latest[b] >= 0 /\ latest[b] < ctr
IndInv == NoOverlap /\ Bounded /\ Latest /\ Versions

\* @type: (Seq({base: Int, ver: Int}), Int, Int) => Bool;
Before(s, a, b) == \E i, j \in 1 .. Cap1 : i < j /\ j <= Len(s) /\ s[i].base = a /\ s[j].base = b
StepOK ==
  \* the line that was read or pushed is the most recently used one
  /\ last.op \in {"GetHit", "Push", "PushW"} => (Len(lines) >= 1 /\ lines[1].base = last.b)
  \* a line leaves only by Evict, or as the least recently used line under a Push into a full cache
  /\ \A b \in Bases : (ResidentIn(last.before, b) /\ ~Resident(b)) =>
       \/ (last.op = "Evict" /\ b = last.b)
       \/ (last.op = "Push" /\ Len(last.before) = NumLines /\ b = last.before[NumLines].base)
  \* Push never leaves more than NumLines lines behind when it started within NumLines
  /\ (last.op = "Push" /\ Len(last.before) <= NumLines) => Len(lines) <= NumLines
  \* the recency order of the other lines is preserved
  /\ \A a, b \in Bases : (a # last.b /\ b # last.b /\ Resident(a) /\ Resident(b)) =>
       (Before(lines, a, b) <=> Before(last.before, a, b))
Step == last.op # "Init" => StepOK
IndStep == IndInv /\ Step

ProbeNotOver == Len(lines) <= NumLines
ProbeNoDisplace == \A b \in Bases : ResidentIn(last.before, b) => (Resident(b) \/ last.op = "Evict")

IndInit ==
  /\ ctr \in 1 .. MaxVer
  /\ \E f \in [Bases -> 0 .. MaxVer] : latest = f
  /\ \E n \in 0 .. Cap1 : \E g \in [1 .. Cap1 -> [base : Bases, ver : 0 .. MaxVer]] : lines = FunAsSeq(g, n, Cap1)
  /\ last = [op |-> "Init", b |-> 0, before |-> <<>>]
  /\ IndInv
=============================================================================
