----------------------------- MODULE KVLruInd -----------------------------
(***************************************************************************)
(* Unbounded-in-time safety of the key-value LRU design of spec/KVLru.tla  *)
(* (C13, second half), history-free: `NoDup` and `WithinCap` as an         *)
(* inductive invariant discharged by Apalache (./check lruind):            *)
(*     Init => IndInv                 (--init=Init    --length=0)          *)
(*     IndInv /\ Next => IndInv'      (--init=IndInit --length=1)          *)
(* together with the action properties that make it an LRU: the key that   *)
(* was touched is the most recent one afterwards, and a Put that displaces *)
(* displaces the least recently used key only (checked as invariants over  *)
(* the `last` record of the step).                                         *)
(***************************************************************************)
EXTENDS Integers, Sequences, Apalache

Keys == 1 .. 4
Cap == 3

VARIABLES
  \* @type: Seq(Int);
  order,
  \* @type: {op: Str, k: Int, before: Seq(Int)};
  last

Has(k) == \E i \in 1 .. Cap : i <= Len(order) /\ order[i] = k
Without(k) == SelectSeq(order, LAMBDA x : x # k)
Refresh(k) == Without(k) \o <<k>>

Init == order = <<>> /\ last = [op |-> "Init", k |-> 0, before |-> <<>>]

Get(k) == /\ order' = IF Has(k) THEN Refresh(k) ELSE order
          /\ last' = [op |-> IF Has(k) THEN "GetHit" ELSE "GetMiss", k |-> k, before |-> order]
Put(k) == /\ order' = IF ~Has(k) /\ Len(order) = Cap THEN Tail(order) \o <<k>> ELSE Refresh(k)
          /\ last' = [op |-> "Put", k |-> k, before |-> order]
(* Find(keys): the least recently used candidate becomes most recent *)
Find(ks) == \E i \in 1 .. Cap :
              /\ i <= Len(order) /\ order[i] \in ks
              /\ \A j \in 1 .. Cap : (j < i) => order[j] \notin ks
              /\ order' = Refresh(order[i])
              /\ last' = [op |-> "Find", k |-> order[i], before |-> order]

Next == \/ \E k \in Keys : Get(k) \/ Put(k)
        \/ \E ks \in SUBSET Keys : Find(ks)

In(s, k) == \E i \in 1 .. Cap : i <= Len(s) /\ s[i] = k
NoDup == \A i, j \in 1 .. Cap : (i < j /\ j <= Len(order)) => order[i] # order[j]
WithinCap == Len(order) <= Cap
KeysOnly == \A i \in 1 .. Cap : i <= Len(order) => order[i] \in Keys
IndInv == NoDup /\ WithinCap /\ KeysOnly

(* what a step did, stated over the state before it (IndInv is assumed for `before` by IndInit) *)
StepOK ==
  /\ last.op \in {"GetHit", "Put", "Find"} => (Len(order) >= 1 /\ order[Len(order)] = last.k)   \* touched key is most recent
  /\ last.op = "GetMiss" => order = last.before
  \* nothing but the least recently used key is ever displaced, and only by a Put of a new key into a full cache
  /\ \A k \in Keys : (In(last.before, k) /\ ~In(order, k)) =>
        (last.op = "Put" /\ Len(last.before) = Cap /\ ~In(last.before, last.k) /\ k = last.before[1])
  \* relative recency of the untouched keys is preserved
  /\ \A a, b \in Keys : (a # last.k /\ b # last.k /\ In(order, a) /\ In(order, b)) =>
        ((\E i, j \in 1 .. Cap : i < j /\ j <= Len(order) /\ order[i] = a /\ order[j] = b)
          <=> (\E i, j \in 1 .. Cap : i < j /\ j <= Len(last.before) /\ last.before[i] = a /\ last.before[j] = b))
Step == last.op # "Init" => StepOK
IndStep == IndInv /\ Step

ProbeNotFull == Len(order) < Cap
ProbeNoDisplace == \A k \in Keys : In(last.before, k) => In(order, k)

IndInit ==
  /\ \E n \in 0 .. Cap : \E f \in [1 .. Cap -> Keys] : order = FunAsSeq(f, n, Cap)
  /\ last = [op |-> "Init", k |-> 0, before |-> <<>>]
  /\ IndInv
=============================================================================
