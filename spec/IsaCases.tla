---------------------------- MODULE IsaCases ----------------------------
(***************************************************************************)
(* C02: one transition per (mnemonic, operand values, register alias        *)
(* pattern, immediate).  TLC enumerates them exhaustively over a boundary   *)
(* lattice (plus NRand seeded random 32-bit operand pairs per mnemonic);    *)
(* each transition carries the architectural effect RV32!Effect defines.    *)
(* The Go harness replays every transition on risc.InstructionRunner.       *)
(***************************************************************************)
EXTENDS RV32, Json

CONSTANTS LatSize,   \* "small" | "full"
          NRand      \* random operand pairs per mnemonic

VARIABLES phase, c
vars == <<phase, c>>

MaxInt32 == <<32767, 65535>>
LatFull == { Zero32, One32, <<0, 2>>, <<65535, 65535>>, <<65535, 65534>>, <<0, 31>>, <<0, 32>>, <<0, 33>>,
             <<0, 127>>, <<0, 128>>, <<0, 255>>, <<0, 256>>, <<0, 32767>>, <<0, 32768>>, <<0, 65535>>, <<1, 0>>,
             MinInt32, <<32768, 1>>, MaxInt32, <<32767, 65534>>, <<21845, 21845>>, <<43690, 43690>>,
             <<65535, 65408>>, <<65535, 32768>>, <<65535, 65505>> }
LatSmall == { Zero32, One32, <<65535, 65535>>, <<0, 31>>, <<0, 32>>, <<0, 33>>, <<0, 128>>, <<0, 65535>>,
              MinInt32, MaxInt32, <<43690, 43690>>, <<65535, 65408>> }
Lat == IF LatSize = "full" THEN LatFull ELSE LatSmall

Imms == {0, 1, -1, 2, 31, 32, 33, 127, 128, 255, 2047, -2048, 65535, -32768}
ShiftImms == {0, 1, 2, 7, 8, 15, 16, 17, 30, 31}
UImms == {0, 1, 2, 524287, 524288, 1048575}
BigImms == {0, 1, -1, 2147483647, -2147483647, 65536, -65536, 305419896}
Pcs == {0, 12}
Junk == <<23130, 42405>>   \* value of registers that are not operands

MemSize == 128

(* register alias patterns for rd, rs1, rs2 *)
AliasR == { <<"t0", "t1", "t2">>, <<"t0", "t0", "t2">>, <<"t0", "t1", "t0">>, <<"t0", "t1", "t1">>,
            <<"t0", "t0", "t0">>, <<"zero", "t1", "t2">>, <<"t0", "zero", "t2">>, <<"t0", "t1", "zero">> }
AliasI == { <<"t0", "t1">>, <<"t0", "t0">>, <<"zero", "t1">>, <<"t0", "zero">> }
AliasS == { <<"t1", "t2">>, <<"t1", "t1">>, <<"t1", "zero">> }   \* base, data
AliasB == { <<"t1", "t2">>, <<"t1", "t1">>, <<"zero", "t2">>, <<"t1", "zero">> }

RegNames == {"ra", "t0", "t1", "t2"}

(* registers such that rs1 reads a and rs2 reads b (rs1 wins on aliasing) *)
MkRegs(rs1, a, rs2, b) ==
  [r \in RegNames |-> IF r = rs1 THEN a ELSE IF r = rs2 THEN b ELSE Junk]

RegsInt(regs) == [r \in RegNames |-> ToInt(regs[r])]

Case(i, pc, regs, img) ==
  LET e == Effect(i, pc, regs, <<>>, img, MemSize, 64)
      after == IF e.kind = "reg" THEN WReg(regs, e.rd, e.val) ELSE regs
  IN [ ins |-> i, pc |-> pc, img |-> img, regs0 |-> RegsInt(regs),
       kind |-> e.kind, erd |-> e.rd, eval |-> ToInt(e.val), eaddr |-> e.addr, ebytes |-> e.bytes,
       eloads |-> e.loads, enext |-> e.next, regs1 |-> RegsInt(after),
       reads |-> ReadRegs(i) \ {"zero"}, writes |-> WriteRegs(i) \ {"zero"} ]

Rand32 == <<RandomElement(Half), RandomElement(Half)>>

GenR == \E op \in ROps, al \in AliasR :
          \/ \E a \in Lat, b \in Lat :
               c' = Case(Ins(op, al[1], al[2], al[3], 0, 0), 0, MkRegs(al[2], a, al[3], b), "zero")
          \/ \E k \in 1 .. NRand :
               c' = Case(Ins(op, al[1], al[2], al[3], 0, 0), 0, MkRegs(al[2], Rand32, al[3], Rand32), "zero")
GenI == \/ \E op \in IOps \ {"slli", "srli", "srai"}, al \in AliasI, a \in Lat, imm \in Imms :
             c' = Case(Ins(op, al[1], al[2], "zero", imm, 0), 0, MkRegs(al[2], a, "zero", Zero32), "zero")
        \/ \E op \in {"slli", "srli", "srai"}, al \in AliasI, a \in Lat, imm \in ShiftImms :
             c' = Case(Ins(op, al[1], al[2], "zero", imm, 0), 0, MkRegs(al[2], a, "zero", Zero32), "zero")
        \/ \E op \in IOps, al \in AliasI, k \in 1 .. NRand :
             c' = Case(Ins(op, al[1], al[2], "zero", RandomElement(IF op \in {"slli", "srli", "srai"} THEN ShiftImms ELSE Imms), 0),
                       0, MkRegs(al[2], Rand32, "zero", Zero32), "zero")
GenMisc ==
        \/ \E rd \in {"t0", "zero"}, imm \in BigImms :
             c' = Case(Ins("li", rd, "zero", "zero", imm, 0), 0, MkRegs("t1", Junk, "t2", Junk), "zero")
        \/ \E op \in {"lui", "auipc"}, rd \in {"t0", "zero"}, imm \in UImms, pc \in Pcs :
             c' = Case(Ins(op, rd, "zero", "zero", imm, 0), pc, MkRegs("t1", Junk, "t2", Junk), "zero")
        \/ \E al \in AliasI, a \in Lat :
             c' = Case(Ins("mv", al[1], al[2], "zero", 0, 0), 0, MkRegs(al[2], a, "zero", Zero32), "zero")
        \/ \E op \in {"nop", "ret"} :
             c' = Case(Ins(op, "zero", "zero", "zero", 0, 0), 8, MkRegs("t1", Junk, "t2", Junk), "zero")
GenLoad == \E op \in LoadOps, al \in {<<"t0", "t1">>, <<"t0", "t0">>, <<"zero", "t1">>},
              base \in {0, 8, 60}, imm \in {0, 4, -4, 8, 2, 1, 63}, img \in {"ramp", "high", "ones"} :
             /\ base + imm >= 0 /\ base + imm + Width(op) <= MemSize /\ (base + imm) % Width(op) = 0
             /\ c' = Case(Ins(op, al[1], al[2], "zero", imm, 0), 0, MkRegs(al[2], FromInt(base), "zero", Zero32), img)
GenStore == \E op \in StoreOps, al \in AliasS, b \in Lat, base \in {8, 60}, imm \in {0, 4, -4, 2, 1} :
             /\ (base + imm) % Width(op) = 0
             /\ c' = Case(Ins(op, "zero", al[1], al[2], imm, 0), 0, MkRegs(al[1], FromInt(base), al[2], b), "ramp")
GenBranch ==
        \/ \E op \in {"beq", "bne", "blt", "bge", "bltu", "bgeu", "ble"}, al \in AliasB, pc \in Pcs :
             \/ \E a \in Lat, b \in Lat :
                  c' = Case(Ins(op, "zero", al[1], al[2], 0, 7), pc, MkRegs(al[1], a, al[2], b), "zero")
             \/ \E k \in 1 .. NRand :
                  c' = Case(Ins(op, "zero", al[1], al[2], 0, 7), pc, MkRegs(al[1], Rand32, al[2], Rand32), "zero")
        \/ \E op \in {"beqz", "bnez"}, rs \in {"t1", "zero"}, a \in Lat, pc \in Pcs :
             c' = Case(Ins(op, "zero", rs, "zero", 0, 7), pc, MkRegs(rs, a, "zero", Zero32), "zero")
        \* undefined label: a defined error when (and only when) the branch is taken
        \/ \E op \in CondOps, a \in {Zero32, One32}, b \in {Zero32, One32} :
             c' = Case(Ins(op, "zero", "t1", IF op \in {"beqz", "bnez"} THEN "zero" ELSE "t2", 0, -1), 0,
                       MkRegs("t1", a, "t2", b), "zero")
GenJump ==
        \/ \E pc \in Pcs, tgt \in {7, -1} :
             c' = Case(Ins("j", "zero", "zero", "zero", 0, tgt), pc, MkRegs("t1", Junk, "t2", Junk), "zero")
        \/ \E rd \in {"ra", "t0", "zero"}, pc \in Pcs, tgt \in {7, -1} :
             c' = Case(Ins("jal", rd, "zero", "zero", 0, tgt), pc, MkRegs("t1", Junk, "t2", Junk), "zero")
        \/ \E al \in {<<"ra", "t1">>, <<"t0", "t1">>, <<"t1", "t1">>, <<"zero", "t1">>, <<"t0", "ra">>},
              base \in {0, 8, 100}, imm \in {0, 4, -4, 16}, pc \in Pcs :
             /\ base + imm >= 0
             /\ c' = Case(Ins("jalr", al[1], al[2], "zero", imm, 0), pc, MkRegs(al[2], FromInt(base), "zero", Zero32), "zero")

Init == phase = "gen" /\ c = [kind |-> "init"]
Next == /\ phase = "gen"
        /\ phase' = "done"
        /\ (GenR \/ GenI \/ GenMisc \/ GenLoad \/ GenStore \/ GenBranch \/ GenJump)
Spec == Init /\ [][Next]_vars

Emit == phase = "done" => PrintT(ToJson(c))
=======================================================================
