--------------------------- MODULE ProgCommon ---------------------------
(***************************************************************************)
(* Shared by the program-family generators (General, Shadow, RegDep,       *)
(* MemWalk, Tail, MemDep, Err, Timing): running a program to completion on  *)
(* the sequential machine of RV32.tla and packaging a case for the Go      *)
(* harness.                                                                *)
(***************************************************************************)
EXTENDS Findings, Json, Mvp4, IOUtils

(* registers every family may use; the initial state of a case gives each a value *)
PRegs == {"ra", "a0", "a1", "t0", "t1", "t2", "t3"}

RECURSIVE RunSeq(_, _, _, _, _)
RunSeq(prog, st, img, memSize, fuel) ==
  IF st.status # "run" THEN st
  ELSE IF fuel = 0 THEN [st EXCEPT !.status = "fuel"]
  ELSE RunSeq(prog, Step(prog, st, img, memSize), img, memSize, fuel - 1)

Final(prog, regs0, img, memSize, fuel) == RunSeq(prog, InitState(regs0), img, memSize, fuel)
FinalM(prog, regs0, mem0, img, memSize, fuel) == RunSeq(prog, InitStateM(regs0, mem0), img, memSize, fuel)

(* a run the properties quantify over: terminates by ret or by running off the end *)
WellFormed(fin) == fin.status \in {"ret", "end"} /\ ~fin.misal
Defined(fin) == fin.status \in {"ret", "end", "err"} /\ ~fin.misal

IntRegs(regs) == [r \in DOMAIN regs |-> ToInt(regs[r])]

(* relative branch targets (used while a program is being built) -> absolute, *)
(* clamped to the label after the last instruction                            *)
Absolute(prog) ==
  [k \in 1 .. Len(prog) |->
     IF prog[k].op \in CondOps \cup {"j", "jal"} /\ prog[k].tgt # -1
     THEN [prog[k] EXCEPT !.tgt = IF (k - 1) + prog[k].tgt > Len(prog) THEN Len(prog)
                                   ELSE IF (k - 1) + prog[k].tgt < 0 THEN 0 ELSE (k - 1) + prog[k].tgt]
     ELSE prog[k]]

(* ---- static / dynamic facts used by the finding classes (spec/Findings) ---- *)
HasOp(prog, ops) == \E k \in 1 .. Len(prog) : prog[k].op \in ops
IsMemOp(i) == i.op \in LoadOps \cup StoreOps
EndsWithRet(fin) == fin.status = "ret"

(* executed instruction indices (0-based) in order *)
Path(fin) == [k \in 1 .. Len(fin.ev) |-> fin.ev[k].i]

(* the cycle-accurate MVP-4 model (spec/Mvp4) is evaluated for short runs when the harness asks for it *)
Cyc4On == "VERIF_CYC4" \in DOMAIN IOEnv /\ IOEnv.VERIF_CYC4 \in {"1", "2"}
(* runs of at most this many executed instructions ("2" = thorough tier: the evaluation of long runs is slow in TLC) *)
Cyc4MaxN == IF IOEnv.VERIF_CYC4 = "2" THEN 300 ELSE 48

(* alt4 / alt5: when the cycle-accurate model says that MVP-4 / MVP-5 as coded drop write-backs at the  *)
(* final `ret` (finding F09a), the exact final state they reach; the class tag is then withdrawn and the *)
(* harness accepts exactly that state as the known finding (anything else is a violation).               *)
AltOf(prog, regs0, mem0, img, memSize, lost) ==
  IF lost = {} THEN [lost |-> {}]
  ELSE LET a == SkipRun(prog, InitStateM(regs0, mem0), lost, img, memSize, 4000)
       IN [lost |-> lost, regs |-> IntRegs(a.regs), mem |-> a.mem]

CaseRecM(fam, prog, regs0, mem0, img, memSize, fin, focusRegs, focusAddrs, tags, extra) ==
  LET on == Cyc4On /\ fin.n <= Cyc4MaxN
      r4 == IF on THEN ResP(prog, fin, FALSE) ELSE [cyc |-> -1, lost |-> {}]
      r5 == IF on THEN ResP(prog, fin, TRUE) ELSE [cyc |-> -1, lost |-> {}]
  IN
  [ mem0 |-> mem0, fam |-> fam, prog |-> prog, regs0 |-> IntRegs(regs0), img |-> img, memSize |-> memSize,
    misal |-> fin.misal,
    exp |-> [ status |-> fin.status, regs |-> IntRegs(fin.regs), mem |-> fin.mem, n |-> fin.n,
              cyc1 |-> fin.cyc1, cyc2 |-> fin.cyc2,
              cyc4 |-> r4.cyc, cyc5 |-> r5.cyc,
              \* MVP-3 writes every resident data line back when the run ends
              cyc3 |-> fin.cyc3 + LatMem * Len(fin.l1d3), pcs |-> [k \in 1 .. Len(fin.ev) |-> fin.ev[k].i],
              addrs |-> [k \in 1 .. Len(fin.ev) |-> fin.ev[k].a] ],
    model45 |-> on /\ r4.cyc > 0 /\ r5.cyc > 0,
    alt4 |-> AltOf(prog, regs0, mem0, img, memSize, r4.lost),
    alt5 |-> AltOf(prog, regs0, mem0, img, memSize, r5.lost),
    focusRegs |-> focusRegs, focusAddrs |-> focusAddrs, tags |-> tags, extra |-> extra ]
CaseRec(fam, prog, regs0, img, memSize, fin, focusRegs, focusAddrs, tags, extra) ==
  CaseRecM(fam, prog, regs0, <<>>, img, memSize, fin, focusRegs, focusAddrs, tags, extra)
=======================================================================
