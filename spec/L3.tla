-------------------------------- MODULE L3 --------------------------------
(***************************************************************************)
(* Design model of the shared L3 of MVP-8 (proc/mvp8-0/cc.go, msi.go): the  *)
(* part of the cache hierarchy that spec/MSI.tla abstracts into "the next   *)
(* level".  L3 lines are twice as long as L1 lines; an L1 line x belongs    *)
(* to the L3 line G(x).  The model follows the data of each L1-sized line   *)
(* (a version number) through the three places it can live - the Modified   *)
(* copy of one core, the L3, main memory - along the code's steps:          *)
(*   Start        msi.l1RLock / l1Lock: the per-L1-line semaphore admits    *)
(*                one request per line; a Modified copy elsewhere is        *)
(*                written back first (l1WriteBack command)                  *)
(*   L3Check      after the L3 latency: line in L3 -> fill L1 from it;      *)
(*                otherwise fetch the whole L3 line from memory.  The code  *)
(*                reads memory when the fetch is ISSUED (fetchCacheLine     *)
(*                before the latency): CaptureAtIssue; the repaired design  *)
(*                reads it when the line is pushed, under the mutex         *)
(*   TryLock      the L3 line mutex.  The read path holds it until the      *)
(*                push; the write path locks and unlocks at once            *)
(*   Push         pushLineToL3 (nothing if the line arrived meanwhile);     *)
(*                a full L3 displaces its LRU line: l3WriteBack if the      *)
(*                line was written (l3Write flag) else l3Evict.  The write  *)
(*                path waits for that command; the read path sets the       *)
(*                checkpoint and then overrides it: WaitInReadPath = FALSE  *)
(*   Fill         GetSubCacheLine from L3 (panic if the line is gone),      *)
(*                then the access itself                                    *)
(*   SnoopL1Wb    the owner's write-back: into L3 if the line is there      *)
(*                (marks it written), else to memory                        *)
(*   SnoopL3Ev / SnoopL3Wb   executed by the requester's snoop coroutine.   *)
(*                As coded `if mu.TryLock() { return false }`: a FREE lock  *)
(*                is taken and the step retried, a HELD lock (by anybody)   *)
(*                lets the step proceed and Unlock() a lock it may not own: *)
(*                TryLockInverted                                           *)
(* Properties (C05 for the L3 level):                                       *)
(*   NoPanic       no 'memory address should exist' / 'invalid state'       *)
(*   CoherentRead  a completed read returns the latest version stored       *)
(*   NothingLost   when everything is quiet, the latest version of every    *)
(*                 line is in a Modified copy, in L3, or in memory - in     *)
(*                 the place the next reader looks first                    *)
(*   LockOwned     a lock is released only by its holder                    *)
(* With the repaired flags (FALSE, TRUE, FALSE) TLC finds them true for the *)
(* bounded configuration; with the as-coded flags it produces the design-   *)
(* level form of finding F05a.  `./check l3` prints the matrix.  The model  *)
(* is bound to the code indirectly: the rig family H and the MemWalk runs   *)
(* beyond 32 L3 lines reproduce the predicted panic on the real controllers *)
(* (known_findings.json F05a); there is no L3-level trace hook.             *)
(***************************************************************************)
EXTENDS Integers, Sequences, FiniteSets, TLC

CONSTANTS Cores, XLines, Cap3, MaxOps,
          TryLockInverted, WaitInReadPath, CaptureAtIssue,
          HoldLockUntilFill,  \* repaired design only: the requester keeps the L3 line mutex until its L1 fill
          DecideAtExecution   \* repaired design only: write-back or plain eviction is decided when the command runs
                              \* (as coded: when it is issued - a sub-line written back into the victim afterwards is lost)

G(x) == (x + 1) \div 2            \* L1 lines 1,2 -> L3 line 1; 3,4 -> 2; ...
Halves(g) == {x \in XLines : G(x) = g}
Groups == {G(x) : x \in XLines}

VARIABLES latest,   \* ghost: newest version stored to each L1 line
          own,      \* Modified copy: own[x] = [c, v] or None
          l3,       \* LRU sequence (MRU first) of [g, data, written]
          mem,      \* main memory version per L1 line
          lock,     \* L3 line mutex: Free or its holder (a core, or SnoopOf(c): the snoop coroutine of core c)
          cmds,     \* pending snoop commands
          op,       \* request in progress per core
          busy,     \* L1 lines with a request in progress (the per-line semaphore)
          opsLeft, panic, badRead, badUnlock
vars == <<latest, own, l3, mem, lock, cmds, op, busy, opsLeft, panic, badRead, badUnlock>>

NoCore == -1
Free == -1
SnoopOf(c) == 100 + c
None == [c |-> NoCore, v |-> -1]
Idle == [kind |-> "none", x |-> 0, phase |-> "idle", cap |-> <<>>, vict |-> 0, got |-> -1]

Init ==
  /\ latest = [x \in XLines |-> 0] /\ own = [x \in XLines |-> None] /\ l3 = <<>>
  /\ mem = [x \in XLines |-> 0] /\ lock = [g \in Groups |-> Free] /\ cmds = {}
  /\ op = [c \in Cores |-> Idle] /\ busy = {} /\ opsLeft = [c \in Cores |-> MaxOps]
  /\ panic = "none" /\ badRead = FALSE /\ badUnlock = FALSE

InL3(g) == \E i \in 1 .. Len(l3) : l3[i].g = g
Idx(g) == CHOOSE i \in 1 .. Len(l3) : l3[i].g = g
Without(g) == SelectSeq(l3, LAMBDA e : e.g # g)
Running == panic = "none"

(* ---- a core's request ---- *)
Start(c, kind, x) ==
  /\ Running /\ op[c].kind = "none" /\ opsLeft[c] > 0 /\ x \notin busy
  /\ busy' = busy \cup {x} /\ opsLeft' = [opsLeft EXCEPT ![c] = @ - 1]
  /\ IF own[x].c = c
     THEN \* hit on the core's own Modified line
          /\ op' = [op EXCEPT ![c] = [Idle EXCEPT !.kind = kind, !.x = x, !.phase = "hit"]] /\ cmds' = cmds
     ELSE IF own[x].c # NoCore
     THEN /\ cmds' = cmds \cup {[k |-> "l1wb", x |-> x, g |-> G(x), by |-> c, st |-> "new"]}
          /\ op' = [op EXCEPT ![c] = [Idle EXCEPT !.kind = kind, !.x = x, !.phase = "pend"]]
     ELSE /\ cmds' = cmds /\ op' = [op EXCEPT ![c] = [Idle EXCEPT !.kind = kind, !.x = x, !.phase = "l3check"]]
  /\ UNCHANGED <<latest, own, l3, mem, lock, panic, badRead, badUnlock>>

PendDone(c) ==
  /\ Running /\ op[c].phase = "pend" /\ ~\E m \in cmds : m.k = "l1wb" /\ m.x = op[c].x
  /\ op' = [op EXCEPT ![c].phase = "l3check"]
  /\ UNCHANGED <<latest, own, l3, mem, lock, cmds, busy, opsLeft, panic, badRead, badUnlock>>

MemData(g) == [x \in Halves(g) |-> mem[x]]

L3Check(c) ==
  /\ Running /\ op[c].phase = "l3check"
  /\ IF InL3(G(op[c].x))
     THEN \* GetSubCacheLine now; the L1 push that follows uses this copy
          op' = [op EXCEPT ![c].phase = "fill2", ![c].got = l3[Idx(G(op[c].x))].data[op[c].x]]
     ELSE op' = [op EXCEPT ![c].phase = "memwait", ![c].cap = MemData(G(op[c].x))]
  /\ UNCHANGED <<latest, own, l3, mem, lock, cmds, busy, opsLeft, panic, badRead, badUnlock>>

MemDone(c) ==
  /\ Running /\ op[c].phase = "memwait"
  /\ op' = [op EXCEPT ![c].phase = "trylock"]
  /\ UNCHANGED <<latest, own, l3, mem, lock, cmds, busy, opsLeft, panic, badRead, badUnlock>>

TryLock(c) ==
  /\ Running /\ op[c].phase = "trylock" /\ lock[G(op[c].x)] = Free
  /\ op' = [op EXCEPT ![c].phase = "push"]
  \* the read path keeps the mutex until the push; the write path locks and unlocks at once
  /\ lock' = IF op[c].kind = "R" \/ HoldLockUntilFill THEN [lock EXCEPT ![G(op[c].x)] = c] ELSE lock
  /\ UNCHANGED <<latest, own, l3, mem, cmds, busy, opsLeft, panic, badRead, badUnlock>>

Push(c) ==
  /\ Running /\ op[c].phase = "push"
  /\ LET g == G(op[c].x)
         x == op[c].x
         waits == op[c].kind = "W" \/ WaitInReadPath
         \* repaired: memory is read when the line is pushed, under the mutex; as coded: what was read at issue time
         data == IF CaptureAtIssue THEN op[c].cap ELSE MemData(g)
         nl == <<[g |-> g, data |-> data, written |-> FALSE]>> \o l3
     IN
     /\ IF op[c].kind = "R" /\ ~HoldLockUntilFill
        THEN /\ lock' = [lock EXCEPT ![g] = Free]
             /\ badUnlock' = (badUnlock \/ lock[g] # c)     \* the mutex may have been released under the reader
        ELSE UNCHANGED <<lock, badUnlock>>
     /\ IF InL3(g)
        THEN \* someone else brought the line meanwhile; coSync...L1 reads the sub-line in the same cycle
             /\ UNCHANGED <<l3, cmds>> /\ op' = [op EXCEPT ![c].phase = "fill2", ![c].got = l3[Idx(g)].data[x]]
        ELSE IF Len(nl) > Cap3
        THEN LET v == nl[Len(nl)] IN
             /\ l3' = nl     \* PushLineWithEvictionWarning: the victim stays until its command runs
             /\ cmds' = cmds \cup {[k |-> IF v.written THEN "l3wb" ELSE "l3ev", x |-> 0, g |-> v.g, by |-> c, st |-> "new"]}
             \* waiting: the sub-line is read from L3 after the victim is gone; not waiting: in this very cycle
             /\ op' = IF waits THEN [op EXCEPT ![c].phase = "evwait", ![c].vict = v.g]
                       ELSE [op EXCEPT ![c].phase = "fill2", ![c].got = data[x]]
        ELSE /\ l3' = nl /\ cmds' = cmds /\ op' = [op EXCEPT ![c].phase = "fill2", ![c].got = data[x]]
  /\ UNCHANGED <<latest, own, mem, busy, opsLeft, panic, badRead>>

EvWait(c) ==
  /\ Running /\ op[c].phase = "evwait" /\ ~\E m \in cmds : m.k \in {"l3wb", "l3ev"} /\ m.g = op[c].vict
  /\ op' = [op EXCEPT ![c].phase = "fill"]
  /\ UNCHANGED <<latest, own, l3, mem, lock, cmds, busy, opsLeft, panic, badRead, badUnlock>>

(* the access itself: coSyncReadFromL1 / coSyncWriteToL1 take the sub-line from L3 *)
Fill(c) ==
  /\ Running /\ op[c].phase \in {"fill", "fill2", "hit"}
  /\ LET x == op[c].x g == G(x) IN
     IF op[c].phase = "fill" /\ ~InL3(g)
     THEN /\ panic' = "invalid state (GetSubCacheLine: line not in L3)"
          /\ UNCHANGED <<latest, own, op, busy, badRead, lock, badUnlock>>
     ELSE LET seen == CASE op[c].phase = "hit" -> own[x].v [] op[c].phase = "fill2" -> op[c].got [] OTHER -> l3[Idx(g)].data[x] IN
          /\ panic' = panic
          /\ IF op[c].kind = "R"
             THEN /\ badRead' = (badRead \/ seen # latest[x]) /\ UNCHANGED <<latest, own>>
             ELSE /\ latest' = [latest EXCEPT ![x] = @ + 1]
                  /\ own' = [own EXCEPT ![x] = [c |-> c, v |-> latest[x] + 1]]
                  /\ badRead' = badRead
          /\ IF HoldLockUntilFill /\ lock[g] = c
             THEN lock' = [lock EXCEPT ![g] = Free] /\ UNCHANGED badUnlock
             ELSE UNCHANGED <<lock, badUnlock>>
          /\ op' = [op EXCEPT ![c] = Idle] /\ busy' = busy \ {x}
  /\ UNCHANGED <<l3, mem, cmds, opsLeft>>

(* ---- snoop commands ---- *)
SnoopL1Wb(m) ==
  /\ Running /\ m \in cmds /\ m.k = "l1wb"
  /\ IF own[m.x].c = NoCore
     THEN /\ panic' = "memory address should exist (L1 write-back)" /\ UNCHANGED <<l3, mem, own, cmds>>
     ELSE /\ panic' = panic
          /\ IF InL3(m.g)
             THEN /\ l3' = [l3 EXCEPT ![Idx(m.g)].data[m.x] = own[m.x].v, ![Idx(m.g)].written = TRUE] /\ mem' = mem
             ELSE /\ mem' = [mem EXCEPT ![m.x] = own[m.x].v] /\ l3' = l3
          /\ own' = [own EXCEPT ![m.x] = None] /\ cmds' = cmds \ {m}
  /\ UNCHANGED <<latest, lock, op, busy, opsLeft, badRead, badUnlock>>

(* the lock dance of the two L3 commands; returns through `go` whether the command proceeds now *)
SnoopL3(m) ==
  /\ Running /\ m \in cmds /\ m.k \in {"l3ev", "l3wb"}
  /\ LET me == SnoopOf(m.by)
         proceed == IF TryLockInverted THEN lock[m.g] # Free ELSE lock[m.g] = Free
         kind == IF DecideAtExecution /\ InL3(m.g) THEN (IF l3[Idx(m.g)].written THEN "l3wb" ELSE "l3ev") ELSE m.k
     IN
     IF ~proceed
     THEN \* as coded: the free mutex is taken and the step is retried; repaired: just retry later
          /\ TryLockInverted /\ lock[m.g] = Free
          /\ lock' = [lock EXCEPT ![m.g] = me]
          /\ UNCHANGED <<l3, mem, cmds, panic, badUnlock>>
     ELSE /\ IF kind = "l3wb" /\ ~InL3(m.g)
             THEN /\ panic' = "memory address should exist (L3 write-back)" /\ UNCHANGED <<l3, mem, cmds, lock, badUnlock>>
             ELSE /\ panic' = panic
                  /\ mem' = IF kind = "l3wb" THEN [x \in XLines |-> IF G(x) = m.g THEN l3[Idx(m.g)].data[x] ELSE mem[x]] ELSE mem
                  /\ l3' = Without(m.g)
                  /\ cmds' = cmds \ {m}
                  /\ lock' = [lock EXCEPT ![m.g] = Free]
                  /\ badUnlock' = (badUnlock \/ (TryLockInverted /\ lock[m.g] # me))
  /\ UNCHANGED <<latest, own, op, busy, opsLeft, badRead>>

Step == \/ \E c \in Cores, k \in {"R", "W"}, x \in XLines : Start(c, k, x)
        \/ \E c \in Cores : PendDone(c) \/ L3Check(c) \/ MemDone(c) \/ TryLock(c) \/ Push(c) \/ EvWait(c) \/ Fill(c)
        \/ \E m \in cmds : SnoopL1Wb(m) \/ SnoopL3(m)
Quiet == cmds = {} /\ \A c \in Cores : op[c].kind = "none"
Next == Step \/ (Quiet /\ (\A c \in Cores : opsLeft[c] = 0) /\ UNCHANGED vars) \/ (~Running /\ UNCHANGED vars)
Spec == Init /\ [][Next]_vars

(* ---- properties ---- *)
NoPanic == panic = "none"
CoherentRead == ~badRead
LockOwned == ~badUnlock
(* where the next reader of x looks first *)
Visible(x) == IF own[x].c # NoCore THEN own[x].v ELSE IF InL3(G(x)) THEN l3[Idx(G(x))].data[x] ELSE mem[x]
NothingLost == (Quiet /\ Running) => \A x \in XLines : Visible(x) = latest[x]
WithinCapacity == Quiet => Len(l3) <= Cap3
NoDeadlock == (~Running) \/ (Quiet /\ \A c \in Cores : opsLeft[c] = 0) \/ ENABLED Step
=======================================================================
