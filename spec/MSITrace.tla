----------------------------- MODULE MSITrace -----------------------------
(***************************************************************************)
(* Binds the C06 clauses to the implementation: the trace is the sequence  *)
(* of distinct per-cycle coherence snapshots exported by the verif hooks   *)
(* of MVP-7.0 / 7.1 / 8 (comp.VerifSnap, one JSON object per line) while   *)
(* the rig or a full CPU runs.  Each step loads the next snapshot; TLC     *)
(* evaluates MSIProps' clauses -- the same operator definitions that are   *)
(* checked exhaustively on the design model MSI.tla -- on every            *)
(* implementation state.  A snapshot is mapped to a view by forgetting     *)
(* everything but the coherence-relevant projection (refinement mapping).  *)
(***************************************************************************)
EXTENDS Integers, Sequences, FiniteSets, TLC, Json, IOUtils

P == INSTANCE MSIProps

Trace == ndJsonDeserialize(IOEnv.TRACE_FILE)

VARIABLES i
vars == <<i>>

Snap == Trace[i]

View(s) ==
  LET L == 1 .. Len(s.lines) C == 1 .. s.cores IN
  [ cores |-> C, lines |-> L,
    st |-> [c \in C |-> [l \in L |-> s.lines[l].st[c]]],
    cnt |-> [c \in C |-> [l \in L |-> s.lines[l].cnt[c]]],
    dat |-> [c \in C |-> [l \in L |-> s.lines[l].hash[c]]],
    next |-> [l \in L |-> s.lines[l].next],
    semr |-> [l \in L |-> s.lines[l].semr], semw |-> [l \in L |-> s.lines[l].semw],
    busy |-> [c \in C |-> [l \in L |-> s.lines[l].busy[c]]],
    cmd |-> [c \in C |-> [l \in L |-> s.lines[l].cmd[c]]],
    mis |-> [c \in C |-> [l \in L |-> s.lines[l].misaligned[c]]] ]

Init == i = 1
Next == i < Len(Trace) /\ i' = i + 1
Spec == Init /\ [][Next]_vars

SWMR == P!SWMR(View(Snap))
SharedClean == P!SharedClean(View(Snap))
Presence == P!Presence(View(Snap))
NoDuplicate == P!NoDuplicate(View(Snap))
Aligned == P!Aligned(View(Snap))
SemNonNegative == P!SemNonNegative(View(Snap))
(* L1 holds at most its capacity, plus the reported victims that are being evicted *)
Capacity == \A c \in 1 .. Snap.cores : Snap.l1len[c] <= Snap.cap + 1

(* Report is an always-true invariant: it prints, for every logged implementation state *)
(* on which some clause is false, the trace line, the run it belongs to and the names  *)
(* of the false clauses (the harness attributes them to schedules / programs).         *)
Bad == (IF SWMR THEN {} ELSE {"SWMR"}) \cup (IF SharedClean THEN {} ELSE {"SharedClean"})
       \cup (IF Presence THEN {} ELSE {"Presence"}) \cup (IF NoDuplicate THEN {} ELSE {"NoDuplicate"})
       \cup (IF Aligned THEN {} ELSE {"Aligned"}) \cup (IF SemNonNegative THEN {} ELSE {"SemNonNegative"})
       \cup (IF Capacity THEN {} ELSE {"Capacity"})
Report == Bad # {} => PrintT(ToJson([line |-> i, run |-> Snap.run, bad |-> Bad]))

(* every line of the trace was consumed *)
TraceAccepted == TLCGet("stats").diameter = Len(Trace)
=======================================================================
