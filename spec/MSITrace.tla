----------------------------- MODULE MSITrace -----------------------------
(***************************************************************************)
(* Binds the C06 clauses to the implementation: the trace is the sequence  *)
(* of distinct per-cycle coherence snapshots exported by the verif hooks   *)
(* of MVP-7.0 / 7.1 / 8 (comp.VerifSnap, one JSON object per line) while   *)
(* the rig or a full CPU runs.  Each step loads the next snapshot; TLC     *)
(* evaluates MSIProps' clauses -- the same operator definitions that are   *)
(* checked exhaustively on the design model MSI.tla -- on every            *)
(* implementation state.  A snapshot is mapped to a view by forgetting     *)
(* everything but the coherence-relevant projection (refinement mapping).  *)
(***************************************************************************)
EXTENDS Integers, Sequences, FiniteSets, TLC, Json, IOUtils

P == INSTANCE MSIProps

Trace == ndJsonDeserialize(IOEnv.TRACE_FILE)

VARIABLES i
vars == <<i>>

Snap == Trace[i]

(* lines are identified by their base address; a line that a snapshot does not mention has *)
(* the default state (Invalid everywhere, not resident, no lock, no request, no command)    *)
Bases(s) == {s.lines[k].base : k \in 1 .. Len(s.lines)}
Rec(s, b) == s.lines[CHOOSE k \in 1 .. Len(s.lines) : s.lines[k].base = b]
ViewOn(s, L) ==
  LET C == 1 .. s.cores
      has(b) == b \in Bases(s) IN
  [ cores |-> C, lines |-> L,
    st |-> [c \in C |-> [l \in L |-> IF has(l) THEN Rec(s, l).st[c] ELSE 0]],
    cnt |-> [c \in C |-> [l \in L |-> IF has(l) THEN Rec(s, l).cnt[c] ELSE 0]],
    dat |-> [c \in C |-> [l \in L |-> IF has(l) THEN Rec(s, l).hash[c] ELSE 0]],
    next |-> [l \in L |-> IF has(l) THEN Rec(s, l).next ELSE 0],
    semr |-> [l \in L |-> IF has(l) THEN Rec(s, l).semr ELSE 0], semw |-> [l \in L |-> IF has(l) THEN Rec(s, l).semw ELSE 0],
    busy |-> [c \in C |-> [l \in L |-> IF has(l) THEN Rec(s, l).busy[c] ELSE FALSE]],
    cmd |-> [c \in C |-> [l \in L |-> IF has(l) THEN Rec(s, l).cmd[c] ELSE 0]],
    mis |-> [c \in C |-> [l \in L |-> IF has(l) THEN Rec(s, l).misaligned[c] ELSE FALSE]] ]
View(s) == ViewOn(s, Bases(s))

Init == i = 1
Next == i < Len(Trace) /\ i' = i + 1
Spec == Init /\ [][Next]_vars

SWMR == P!SWMR(View(Snap))
SharedClean == P!SharedClean(View(Snap))
Presence == P!Presence(View(Snap))
NoDuplicate == P!NoDuplicate(View(Snap))
Aligned == P!Aligned(View(Snap))
SemNonNegative == P!SemNonNegative(View(Snap))
(* L1 holds at most its capacity, plus the reported victims that are being evicted *)
Capacity == \A c \in 1 .. Snap.cores : Snap.l1len[c] <= Snap.cap + 1

(* consecutive logged states of one run are related by a legal step (MSIProps!LegalStep): *)
(* the same action property TLC checks on every transition of the design model           *)
LegalStep == (i > 1 /\ Trace[i - 1].run = Snap.run) =>
               LET L == Bases(Trace[i - 1]) \cup Bases(Snap) IN P!LegalStep(ViewOn(Trace[i - 1], L), ViewOn(Snap, L))

(* Report is an always-true invariant: it prints, for every logged implementation state *)
(* on which some clause is false, the trace line, the run it belongs to and the names  *)
(* of the false clauses (the harness attributes them to schedules / programs).         *)
Bad == (IF SWMR THEN {} ELSE {"SWMR"}) \cup (IF SharedClean THEN {} ELSE {"SharedClean"})
       \cup (IF Presence THEN {} ELSE {"Presence"}) \cup (IF NoDuplicate THEN {} ELSE {"NoDuplicate"})
       \cup (IF Aligned THEN {} ELSE {"Aligned"}) \cup (IF SemNonNegative THEN {} ELSE {"SemNonNegative"})
       \cup (IF Capacity THEN {} ELSE {"Capacity"}) \cup (IF LegalStep THEN {} ELSE {"LegalStep"})
Report == Bad # {} => PrintT(ToJson([line |-> i, run |-> Snap.run, bad |-> Bad]))

(* every line of the trace was consumed *)
TraceAccepted == TLCGet("stats").diameter = Len(Trace)
=======================================================================
