---------------------------- MODULE Word32 ----------------------------
(***************************************************************************)
(* 32-bit machine words for TLC.                                           *)
(*                                                                         *)
(* TLC integers are Java ints and overflow is an error, so a word is a     *)
(* pair <<hi, lo>> of unsigned 16-bit halves; products go through 8-bit    *)
(* limbs.  All operators are total on Word and never overflow.             *)
(***************************************************************************)
EXTENDS Integers, Sequences, Bitwise

H == 65536
Half == 0 .. 65535
Word == Half \X Half

W(hi, lo) == <<hi, lo>>
Hi(w) == w[1]
Lo(w) == w[2]

Zero32 == <<0, 0>>
One32 == <<0, 1>>
MinInt32 == <<32768, 0>>

(* signed decimal <-> word; both directions stay inside Java int *)
FromInt(i) == LET lo == i % H
                  hi == ((i - lo) \div H) % H
              IN <<hi, lo>>
ToInt(w) == IF w[1] < 32768 THEN w[1] * H + w[2] ELSE (w[1] - H) * H + w[2]

IsNeg(w) == w[1] >= 32768

Add(a, b) == LET lo == a[2] + b[2]
                 hi == a[1] + b[1] + (lo \div H)
             IN <<hi % H, lo % H>>
Not32(a) == <<65535 - a[1], 65535 - a[2]>>
Neg(a) == Add(Not32(a), One32)
Sub(a, b) == Add(a, Neg(b))

And32(a, b) == <<a[1] & b[1], a[2] & b[2]>>
Or32(a, b) == <<a[1] | b[1], a[2] | b[2]>>
Xor32(a, b) == <<a[1] ^^ b[1], a[2] ^^ b[2]>>

(* 16 x 16 -> 32 bit product through 8-bit limbs *)
Mul16(x, y) == LET x1 == x \div 256  x0 == x % 256
                   y1 == y \div 256  y0 == y % 256
                   low == (x1 * y0 + x0 * y1) * 256 + x0 * y0
               IN <<x1 * y1 + (low \div H), low % H>>
(* low 32 bits of the product *)
Mul(a, b) == LET ll == Mul16(a[2], b[2])
                 hl == Mul16(a[1], b[2])
                 lh == Mul16(a[2], b[1])
             IN <<(ll[1] + hl[2] + lh[2]) % H, ll[2]>>

LtS(a, b) == ToInt(a) < ToInt(b)
LtU(a, b) == a[1] < b[1] \/ (a[1] = b[1] /\ a[2] < b[2])

Pow2(n) == CASE n = 0 -> 1 [] n = 1 -> 2 [] n = 2 -> 4 [] n = 3 -> 8 [] n = 4 -> 16
             [] n = 5 -> 32 [] n = 6 -> 64 [] n = 7 -> 128 [] n = 8 -> 256 [] n = 9 -> 512
             [] n = 10 -> 1024 [] n = 11 -> 2048 [] n = 12 -> 4096 [] n = 13 -> 8192
             [] n = 14 -> 16384 [] n = 15 -> 32768 [] n = 16 -> 65536

(* shift amount = low five bits of the second operand *)
Shamt(b) == b[2] % 32

SllN(a, n) == IF n >= 16
              THEN <<(a[2] * Pow2(n - 16)) % H, 0>>
              ELSE LET full == a[2] * Pow2(n)
                   IN <<(((a[1] * Pow2(n)) % H) + (full \div H)) % H, full % H>>
SrlN(a, n) == IF n >= 16
              THEN <<0, a[1] \div Pow2(n - 16)>>
              ELSE <<a[1] \div Pow2(n), (a[2] \div Pow2(n)) + (a[1] % Pow2(n)) * Pow2(16 - n)>>
SraN(a, n) == IF IsNeg(a) THEN Not32(SrlN(Not32(a), n)) ELSE SrlN(a, n)

Sll(a, b) == SllN(a, Shamt(b))
Srl(a, b) == SrlN(a, Shamt(b))
Sra(a, b) == SraN(a, Shamt(b))

(* signed division truncating toward zero; b # 0; MinInt / -1 wraps *)
DivT(a, b) ==
  LET x == ToInt(a)  y == ToInt(b) IN
  IF a = MinInt32 /\ y = -1 THEN MinInt32
  ELSE IF b = MinInt32 THEN (IF a = MinInt32 THEN One32 ELSE Zero32)
  ELSE LET yy == IF y < 0 THEN -y ELSE y
           f == x \div yy
           r == x % yy
           t == IF r # 0 /\ x < 0 THEN f + 1 ELSE f
       IN FromInt(IF y < 0 THEN -t ELSE t)
RemT(a, b) ==
  IF a = MinInt32 /\ ToInt(b) = -1 THEN Zero32
  ELSE Sub(a, Mul(DivT(a, b), b))

SextB(b) == IF b < 128 THEN <<0, b>> ELSE <<65535, 65280 + b>>
SextH(h) == IF h < 32768 THEN <<0, h>> ELSE <<65535, h>>

(* little-endian bytes, each 0..255 *)
Bytes(w) == <<w[2] % 256, w[2] \div 256, w[1] % 256, w[1] \div 256>>
FromBytes(b0, b1, b2, b3) == <<b3 * 256 + b2, b1 * 256 + b0>>
(* a Go int8 for a byte *)
ToI8(b) == IF b < 128 THEN b ELSE b - 256
FromI8(i) == IF i < 0 THEN i + 256 ELSE i

(* ---- self checks over a boundary lattice (evaluated by TLC as ASSUME) ---- *)
Lattice16 == {0, 1, 2, 127, 128, 255, 256, 32767, 32768, 65534, 65535, 21845, 43690}
LatticeW == Lattice16 \X Lattice16

ASSUME \A w \in LatticeW : FromInt(ToInt(w)) = w
ASSUME \A w \in LatticeW : LET b == Bytes(w) IN FromBytes(b[1], b[2], b[3], b[4]) = w
ASSUME \A w \in LatticeW : Add(w, Neg(w)) = Zero32
ASSUME \A a \in LatticeW, b \in {<<0, 0>>, <<0, 1>>, <<0, 3>>, <<65535, 65535>>, <<0, 256>>} :
          Mul(a, b) = Mul(b, a)
ASSUME \A a \in LatticeW : Mul(a, <<65535, 65535>>) = Neg(a)
ASSUME \A a \in LatticeW : Mul(a, <<0, 2>>) = Add(a, a)
ASSUME \A a \in LatticeW, n \in {0, 1, 5, 15, 16, 17, 31} :
          /\ SllN(SrlN(a, n), n) = And32(a, SllN(<<65535, 65535>>, n))
          /\ (~IsNeg(a) => SraN(a, n) = SrlN(a, n))
ASSUME \A a \in LatticeW, b \in LatticeW \ {Zero32} :
          Add(Mul(DivT(a, b), b), RemT(a, b)) = a
ASSUME SraN(<<65535, 65535>>, 31) = <<65535, 65535>> /\ SraN(MinInt32, 31) = <<65535, 65535>>
ASSUME DivT(FromInt(-7), FromInt(2)) = FromInt(-3) /\ RemT(FromInt(-7), FromInt(2)) = FromInt(-1)
ASSUME DivT(FromInt(7), FromInt(-2)) = FromInt(-3) /\ RemT(FromInt(7), FromInt(-2)) = FromInt(1)
=======================================================================
