---------------------------- MODULE LineCache ----------------------------
(***************************************************************************)
(* Reference model of proc/comp.LRUCache (C13), written to be bound: the   *)
(* state is exactly what the Go type holds (the MRU-first list of resident *)
(* lines), there is one action per exported method, and every action       *)
(* records its return value.  The properties of C13 are stated separately  *)
(* as invariants over the state and the history.                           *)
(*                                                                         *)
(* Preconditions of the model (the discipline every processor variant     *)
(* follows): line bases are multiples of LineLen, a line is pushed only    *)
(* when no resident line covers it, pushes happen only while at most       *)
(* NumLines lines are resident, Write targets a resident line and stays    *)
(* inside it.                                                              *)
(***************************************************************************)
EXTENDS Integers, Sequences, FiniteSets, Json, TLC, Randomization

CONSTANTS LineLen, NumLines, Bases, K,   \* K = history length
          Sample   \* 0: every op instance is a successor (exhaustive); n > 0: n random instances per op kind (simulation)

VARIABLES lines,   \* MRU-first sequence of [base, data]
          hist,    \* sequence of [op, a, d, ok, ret, lines]  (call, return value, resulting state)
          ctr      \* source of distinguishable data values
vars == <<lines, hist, ctr>>

Addrs == UNION { b .. (b + LineLen - 1) : b \in Bases }
Covers(l, a) == l.base <= a /\ a < l.base + LineLen
Resident(a) == \E i \in 1 .. Len(lines) : Covers(lines[i], a)
Idx(a) == CHOOSE i \in 1 .. Len(lines) : Covers(lines[i], a) /\ \A j \in 1 .. (i - 1) : ~Covers(lines[j], a)
RemoveAt(s, i) == SubSeq(s, 1, i - 1) \o SubSeq(s, i + 1, Len(s))
FreshData(c) == [k \in 1 .. LineLen |-> (c * 16 + k) % 256]

(* a history step records the call, its return value, and a projection of the resulting *)
(* state: the recency order of the resident bases and the contents of the line covering *)
(* the address of the call (the complete final state is emitted with the history)       *)
Touched(ls, a) == LET hit == {i \in 1 .. Len(ls) : Covers(ls[i], a)} IN
                  IF hit = {} THEN <<>> ELSE ls[CHOOSE x \in hit : \A y \in hit : x <= y].data
Rec(op, a, d, ok, ret, ls) == [op |-> op, a |-> a, d |-> d, ok |-> ok, ret |-> ret,
                               bases |-> [i \in 1 .. Len(ls) |-> ls[i].base], touched |-> Touched(ls, a)]
Log(op, a, d, ok, ret) == hist' = Append(hist, Rec(op, a, d, ok, ret, lines'))

Init == lines = <<>> /\ hist = <<>> /\ ctr = 1

(* Get(addr): value of the byte and presence; a hit makes the line most recently used *)
Get(a) ==
  /\ IF Resident(a)
     THEN LET i == Idx(a) l == lines[i] IN
          /\ lines' = <<l>> \o RemoveAt(lines, i)
          /\ Log("Get", a, <<>>, TRUE, <<l.data[a - l.base + 1]>>)
     ELSE /\ lines' = lines
          /\ Log("Get", a, <<>>, FALSE, <<>>)
  /\ UNCHANGED ctr

(* GetCacheLine(addr): contents of the covering line; recency unchanged *)
GetLine(a) ==
  /\ lines' = lines
  /\ IF Resident(a) THEN Log("GetLine", a, <<>>, TRUE, lines[Idx(a)].data)
                    ELSE Log("GetLine", a, <<>>, FALSE, <<>>)
  /\ UNCHANGED ctr

(* EvictCacheLine(addr): removes the covering line and returns its contents *)
Evict(a) ==
  /\ IF Resident(a)
     THEN /\ lines' = RemoveAt(lines, Idx(a))
          /\ Log("Evict", a, <<>>, TRUE, lines[Idx(a)].data)
     ELSE /\ lines' = lines /\ Log("Evict", a, <<>>, FALSE, <<>>)
  /\ UNCHANGED ctr

(* Write(addr, data): overwrites bytes of a resident line; recency unchanged *)
Write(a, n) ==
  /\ Resident(a)
  /\ LET i == Idx(a) l == lines[i] off == a - l.base
         d == [k \in 1 .. n |-> (ctr * 16 + 8 + k) % 256] IN
     /\ off + n <= LineLen
     /\ lines' = [lines EXCEPT ![i].data = [k \in 1 .. LineLen |-> IF k > off /\ k <= off + n THEN d[k - off] ELSE @[k]]]
     /\ Log("Write", a, d, TRUE, <<>>)
  /\ ctr' = ctr + 1

(* PushLine(base, data): inserts as most recently used; when the cache was full the *)
(* least recently used line is displaced and ITS contents are returned               *)
Push(b) ==
  /\ ~Resident(b) /\ Len(lines) <= NumLines
  /\ LET nl == <<[base |-> b, data |-> FreshData(ctr)]>> \o lines IN
     IF Len(nl) > NumLines
     THEN /\ lines' = SubSeq(nl, 1, NumLines)
          /\ Log("Push", b, FreshData(ctr), TRUE, nl[Len(nl)].data)
     ELSE /\ lines' = nl
          /\ Log("Push", b, FreshData(ctr), FALSE, <<>>)
  /\ ctr' = ctr + 1

(* PushLineWithEvictionWarning: as Push, but the victim is only reported (base and  *)
(* contents) and stays resident until the caller removes it with EvictCacheLine      *)
PushW(b) ==
  /\ ~Resident(b) /\ Len(lines) <= NumLines
  /\ LET nl == <<[base |-> b, data |-> FreshData(ctr)]>> \o lines IN
     /\ lines' = nl
     /\ IF Len(nl) > NumLines
        THEN Log("PushW", b, FreshData(ctr), TRUE, <<nl[Len(nl)].base>> \o nl[Len(nl)].data)
        ELSE Log("PushW", b, FreshData(ctr), FALSE, <<>>)
  /\ ctr' = ctr + 1

(* GetSubCacheLine(addr, LineLen/2): the aligned half line containing addr, looked up *)
(* only among the lines that are not being evicted (the first NumLines)              *)
Existing == SubSeq(lines, 1, IF Len(lines) < NumLines THEN Len(lines) ELSE NumLines)
GetSub(a) ==
  LET sub == LineLen \div 2
      hit == {i \in 1 .. Len(Existing) : Covers(Existing[i], a)} IN
  /\ sub >= 1
  /\ lines' = lines
  /\ IF hit # {}
     THEN LET i == CHOOSE x \in hit : \A y \in hit : x <= y
              l == Existing[i]
              sb == a - (a % sub) IN
          Log("GetSub", a, <<>>, TRUE, <<sb>> \o [k \in 1 .. sub |-> l.data[sb - l.base + k]])
     ELSE Log("GetSub", a, <<>>, FALSE, <<>>)
  /\ UNCHANGED ctr

ProbeAddrs == Bases \cup {b + LineLen - 1 : b \in Bases}
GetAddrs == IF LineLen > 4 THEN ProbeAddrs \cup {b + 1 : b \in Bases} ELSE Addrs
Pick(S) == IF Sample = 0 THEN S ELSE RandomSubset(IF Cardinality(S) < Sample THEN Cardinality(S) ELSE Sample, S)
Next == /\ Len(hist) < K
        /\ \/ \E a \in Pick(GetAddrs) : Get(a)
           \/ \E a \in Pick(ProbeAddrs) : GetLine(a) \/ Evict(a) \/ GetSub(a)
           \/ \E a \in Pick(GetAddrs) : Write(a, 1)
           \/ \E b \in Pick(Bases) : Write(b, LineLen)
           \/ \E b \in Pick(Bases) : Push(b) \/ PushW(b)
Spec == Init /\ [][Next]_vars

(* ---- the clauses of C13, checked by TLC on the model itself ---- *)
NoOverlap == \A i, j \in 1 .. Len(lines) : i # j => lines[i].base # lines[j].base
Bounded == Len(lines) <= NumLines + 1
(* a reported victim is the least recently used line: it was last in the list *)
VictimIsLRU ==
  \A k \in 1 .. Len(hist) :
    LET h == hist[k] prev == IF k = 1 THEN <<>> ELSE hist[k - 1].bases IN
    /\ (h.op = "Push" /\ h.ok) => /\ Len(prev) = NumLines /\ Len(h.bases) = NumLines
                                  /\ \A i \in 1 .. Len(h.bases) : h.bases[i] # prev[Len(prev)]
    /\ (h.op = "PushW" /\ h.ok) => h.ret[1] = prev[Len(prev)]
(* presence <=> covered, and a read returns the last write since insertion: both    *)
(* follow from Get being defined on `lines`; stated on the history for the trace    *)
ReadYourWrites ==
  \A k \in 1 .. Len(hist) :
    hist[k].op = "Get" =>
      LET prev == IF k = 1 THEN <<>> ELSE hist[k - 1].bases IN
      hist[k].ok = (\E i \in 1 .. Len(prev) : prev[i] <= hist[k].a /\ hist[k].a < prev[i] + LineLen)

Emit == Len(hist) = K => PrintT(ToJson([geom |-> <<LineLen, NumLines>>, hist |-> hist, final |-> lines]))
=======================================================================
