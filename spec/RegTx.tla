------------------------------ MODULE RegTx ------------------------------
(***************************************************************************)
(* C15: speculative register state.                                        *)
(*                                                                         *)
(* The model is the PROPERTY, not the data structure: the state is the     *)
(* architectural register file plus the list of uncommitted tagged writes  *)
(* (in arrival order).  Commit makes the youngest write (greatest tag) of  *)
(* each register architectural; Rollback(s) only considers writes older    *)
(* than s; a read on behalf of tag t may only see writes with tag <= t.    *)
(* Three implementations are bound to it by replay:                        *)
(*   Mode = "map"  risc.Context.Transaction  (TransactionWriteRegister,    *)
(*                 Commit, Rollback, reads through `mv`)                   *)
(*   Mode = "rat"  risc.Context with the rename tables (InitRAT,           *)
(*                 TransactionRATWrite, RATCommit, RATRollback, RATFlush)  *)
(*   Mode = "ring" comp.RAT directly with ring length Ring (Write, Read,   *)
(*                 Find, Values, FindValues)                               *)
(* Every step carries the class flags the finding predicates use:          *)
(*   ooo       some register has uncommitted writes whose arrival order    *)
(*             differs from their tag order                                *)
(*   overflow  some register has more uncommitted writes than Ring slots   *)
(***************************************************************************)
EXTENDS Integers, Sequences, FiniteSets, Json, TLC, Randomization

CONSTANTS Mode, Ring, Regs, Tags, K, Sample

VARIABLES regs, pend, ctr, hist
vars == <<regs, pend, ctr, hist>>

InitVal(r) == IF r = "t0" THEN 11 ELSE IF r = "t1" THEN 22 ELSE 33

Of(r) == SelectSeq(pend, LAMBDA w : w.reg = r)
Older(r, s) == SelectSeq(pend, LAMBDA w : w.reg = r /\ w.tag < s)
UpTo(r, t) == SelectSeq(pend, LAMBDA w : w.reg = r /\ w.tag <= t)
(* youngest = greatest tag; among equal tags the one that arrived last *)
Youngest(ws) == LET mx == CHOOSE i \in 1 .. Len(ws) : \A j \in 1 .. Len(ws) : ws[j].tag < ws[i].tag \/ (ws[j].tag = ws[i].tag /\ j <= i)
                IN ws[mx]
InOrder(ws) == \A i, j \in 1 .. Len(ws) : i < j => ws[i].tag <= ws[j].tag
Ooo == \E r \in Regs : ~InOrder(Of(r))
Overflow == \E r \in Regs : Len(Of(r)) > Ring
OverflowReg(r) == Len(Of(r)) > Ring

Log(op, r, t, v, ret, allowed) ==
  hist' = Append(hist, [op |-> op, reg |-> r, tag |-> t, val |-> v, ret |-> ret, allowed |-> allowed,
                        regs |-> regs', ooo |-> Ooo, overflow |-> Overflow,
                        ovreg |-> IF r \in Regs THEN OverflowReg(r) ELSE FALSE])

Init == regs = [r \in Regs |-> InitVal(r)] /\ pend = <<>> /\ ctr = 100 /\ hist = <<>>

Write(r, t) == /\ pend' = Append(pend, [reg |-> r, tag |-> t, val |-> ctr])
               /\ ctr' = ctr + 1 /\ UNCHANGED regs
               /\ Log("Write", r, t, ctr, 0, {})
(* a write of the value the register already has in the committed file (x := a; x := b; x := a is not a no-op) *)
WriteBack(r, t) == /\ pend # <<>>
                   /\ pend' = Append(pend, [reg |-> r, tag |-> t, val |-> regs[r]])
                   /\ UNCHANGED <<ctr, regs>>
                   /\ Log("Write", r, t, regs[r], 0, {})
(* t = 0: a plain read sees the youngest uncommitted write; t > 0: only writes that are not younger *)
Read(r, t) ==
  LET ws == IF t = 0 THEN Of(r) ELSE UpTo(r, t)
      exact == IF ws = <<>> THEN regs[r] ELSE Youngest(ws).val
      allowed == {regs[r]} \cup {ws[i].val : i \in 1 .. Len(ws)}
  IN /\ UNCHANGED <<regs, pend, ctr>> /\ Log("Read", r, t, 0, exact, allowed)
Commit == /\ regs' = [r \in Regs |-> IF Of(r) = <<>> THEN regs[r] ELSE Youngest(Of(r)).val]
          /\ pend' = <<>> /\ UNCHANGED ctr /\ Log("Commit", "none", 0, 0, 0, {})
Rollback(s) == /\ regs' = [r \in Regs |-> IF Older(r, s) = <<>> THEN regs[r] ELSE Youngest(Older(r, s)).val]
               /\ pend' = <<>> /\ UNCHANGED ctr /\ Log("Rollback", "none", s, 0, 0, {})

Pick(S) == IF Sample = 0 THEN S ELSE RandomSubset(IF Cardinality(S) < Sample THEN Cardinality(S) ELSE Sample, S)
Next == /\ Len(hist) < K
        /\ \/ \E r \in Pick(Regs), t \in Pick(Tags) : Write(r, t)
           \/ \E r \in Pick(Regs), t \in Pick(Tags) : WriteBack(r, t)
           \/ \E r \in Pick(Regs), t \in Pick(Tags \cup {0}) : Read(r, t)
           \/ Commit
           \/ \E s \in Pick(Tags) : Rollback(s)
Spec == Init /\ [][Next]_vars

(* sanity of the model: a register never takes a value nobody wrote *)
ValuesWritten == \A r \in Regs : regs[r] = InitVal(r) \/ \E i \in 1 .. Len(hist) : hist[i].op = "Write" /\ hist[i].val = regs[r]

Emit == Len(hist) = K => PrintT(ToJson([mode |-> Mode, ring |-> Ring, hist |-> hist]))
=======================================================================
