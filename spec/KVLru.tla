------------------------------ MODULE KVLru ------------------------------
(***************************************************************************)
(* Reference model of common/cache.LRUCache[K,V] (C13, second half): the   *)
(* generic key-value LRU used for unit selection.  `order` lists the keys  *)
(* least-recently-used first.                                              *)
(***************************************************************************)
EXTENDS Integers, Sequences, FiniteSets, Json, TLC

CONSTANTS Keys, Cap, K

VARIABLES order, vals, hist, ctr
vars == <<order, vals, hist, ctr>>

Has(k) == \E i \in 1 .. Len(order) : order[i] = k
Without(k) == SelectSeq(order, LAMBDA x : x # k)
Refresh(k) == Without(k) \o <<k>>
Log(op, k, ks, ok, ret) == hist' = Append(hist, [op |-> op, k |-> k, ks |-> ks, ok |-> ok, ret |-> ret, order |-> order'])

Init == order = <<>> /\ vals = [k \in Keys |-> 0] /\ hist = <<>> /\ ctr = 1

Get(k) == /\ IF Has(k) THEN order' = Refresh(k) /\ Log("Get", k, {}, TRUE, vals[k])
                       ELSE order' = order /\ Log("Get", k, {}, FALSE, 0)
          /\ UNCHANGED <<vals, ctr>>
Put(k) == /\ IF ~Has(k) /\ Len(order) = Cap
             THEN order' = Tail(order) \o <<k>>          \* displaces the least recently used key
             ELSE order' = Refresh(k)
          /\ vals' = [vals EXCEPT ![k] = ctr]
          /\ ctr' = ctr + 1
          /\ Log("Put", k, {}, TRUE, ctr)
(* Find(keys): the least recently used key among the candidates, which becomes most recent *)
Find(ks) == LET cand == {i \in 1 .. Len(order) : order[i] \in ks} IN
            /\ IF cand # {}
               THEN LET i == CHOOSE x \in cand : \A y \in cand : x <= y IN
                    order' = Refresh(order[i]) /\ Log("Find", 0, ks, TRUE, order[i])
               ELSE order' = order /\ Log("Find", 0, ks, FALSE, 0)
            /\ UNCHANGED <<vals, ctr>>

Next == /\ Len(hist) < K
        /\ \/ \E k \in Keys : Get(k) \/ Put(k)
           \/ \E ks \in (SUBSET Keys) \ {{}} : Find(ks)
Spec == Init /\ [][Next]_vars

NoDup == \A i, j \in 1 .. Len(order) : i # j => order[i] # order[j]
WithinCap == Len(order) <= Cap
Emit == Len(hist) = K => PrintT(ToJson([cap |-> Cap, hist |-> hist]))
=======================================================================
