------------------------------- MODULE Mvp4 -------------------------------
(***************************************************************************)
(* Cycle-accurate timing model of MVP-4 (proc/mvp4: fetch unit with an L1I, *)
(* decode unit, one in-order execute unit with an L1D, write unit, simple   *)
(* branch unit, two-slot latches between the stages), structured like the   *)
(* implementation: Cycle4 is one iteration of CPU.Run's loop (fetch,        *)
(* decode, execute, write-back, then ret / flush / completion).             *)
(*                                                                         *)
(* The model is trace driven: the values come from the sequential machine   *)
(* (fin.ev = executed instructions, accessed addresses, taken transfers);   *)
(* the model adds what the sequential machine does not know - when each     *)
(* instruction is fetched, decoded, executed and written back, which lines  *)
(* the two caches hold, when the pipeline is flushed, and the wrong-path    *)
(* fetches in between.  Cyc4(prog, fin) is the cycle count CPU.Run returns. *)
(* The Go harness compares it with the real MVP-4 for every generated       *)
(* program whose functional result agrees (C12), so that any change of the  *)
(* timing behaviour of MVP-4 is detected, not only the pinned benchmarks.   *)
(***************************************************************************)
EXTENDS RV32

Range(f) == {f[x] : x \in DOMAIN f}

Bus0 == [p |-> <<>>, c |-> <<>>]                 \* SimpleBus: pending and current slot
BusCanAdd(b) == b.p = <<>>
BusAdd(b, x) == [b EXCEPT !.p = <<x>>]
BusGet(b) == [val |-> b.c, bus |-> [p |-> <<>>, c |-> b.p]]
BusEmpty(b) == b.p = <<>> /\ b.c = <<>>

(* withBtb = FALSE: MVP-4.  withBtb = TRUE: MVP-5, which adds a 4-entry branch target buffer for  *)
(* j/jal/jalr, a decode unit that stalls behind an undecided jump, and a fetch unit that can be    *)
(* redirected (and told to clear its output latch) by the branch unit.                             *)
BtbSize == 4
BtbGet(b, pc) == {k \in 1 .. Len(b) : b[k].pc = pc}
BtbAdd(b, pc, dest) ==
  IF BtbGet(b, pc) # {} THEN [k \in 1 .. Len(b) |-> IF b[k].pc = pc THEN [pc |-> pc, dest |-> dest] ELSE b[k]]
  ELSE IF Len(b) # BtbSize THEN Append(b, [pc |-> pc, dest |-> dest])
  ELSE Append(Tail(b), [pc |-> pc, dest |-> dest])

S0(prog, withBtb) ==
  [ withBtb |-> withBtb, btb |-> <<>>, fclean |-> FALSE, dpend |-> FALSE,
    cycle |-> 0, pc |-> 0, frem |-> 0, fcomplete |-> FALSE, fproc |-> FALSE,
    l1i |-> <<>>, l1d |-> <<>>, dbus |-> Bus0, ebus |-> Bus0, wbus |-> Bus0,
    eproc |-> FALSE, epend |-> FALSE, erem |-> 0, epc |-> -1, ehit |-> FALSE,
    wpend |-> FALSE, wcyc |-> 0, toCheck |-> FALSE, expect |-> 0,
    pendW |-> [r \in {} |-> 0], k |-> 1, done |-> FALSE, bad |-> FALSE, lost |-> {},
    sq |-> <<>> ]   \* sq: lines of the store misses sent to the write unit and not yet written to memory

PendCount(s, r) == IF r \in DOMAIN s.pendW THEN s.pendW[r] ELSE 0
Hazard(s, i) == \E r \in ReadRegs(i) \ {"zero"} : PendCount(s, r) > 0
AddPend(pw, regs) == [r \in (DOMAIN pw) \cup regs |-> (IF r \in DOMAIN pw THEN pw[r] ELSE 0) + (IF r \in regs THEN 1 ELSE 0)]
(* DeletePendingWriteRegisters: decrement, forget the entry when it reaches zero *)
DelPend(pw, regs) == LET dec == [r \in DOMAIN pw |-> pw[r] - (IF r \in regs THEN 1 ELSE 0)]
                     IN [r \in {x \in DOMAIN dec : dec[x] > 0} |-> dec[r]]

(* ---- fetch unit ---- *)
Fetch(s0, n) ==
  LET s == IF s0.fclean THEN [s0 EXCEPT !.dbus = Bus0, !.fclean = FALSE] ELSE s0 IN
  IF s.fcomplete THEN s
  ELSE IF s.pc \div 4 >= n THEN [s EXCEPT !.fcomplete = TRUE]
  ELSE
    LET s1 == IF s.fproc THEN s
              ELSE IF HitIdx(s.l1i, s.pc) # {}
                   THEN [s EXCEPT !.fproc = TRUE, !.frem = 1, !.l1i = TouchLRU(@, s.pc)]
                   ELSE [s EXCEPT !.fproc = TRUE, !.frem = LatMem, !.l1i = PushLRU(@, s.pc)]
        r == s1.frem - 1
    IN IF r # 0 THEN [s1 EXCEPT !.frem = r]
       ELSE IF ~BusCanAdd(s1.dbus) THEN [s1 EXCEPT !.frem = 1]
       ELSE [s1 EXCEPT !.frem = 0, !.fproc = FALSE, !.pc = s1.pc + 4,
                       !.fcomplete = ((s1.pc + 4) \div 4 >= n), !.dbus = BusAdd(@, s1.pc)]

(* ---- decode unit ---- *)
Decode(s, prog) ==
  IF s.dpend \/ ~BusCanAdd(s.ebus) THEN s
  ELSE LET g == BusGet(s.dbus) IN
       IF g.val = <<>> THEN [s EXCEPT !.dbus = g.bus]
       ELSE [s EXCEPT !.dbus = g.bus, !.ebus = BusAdd(@, g.val[1]),
                      !.dpend = s.withBtb /\ prog[g.val[1] \div 4 + 1].op \in JumpOps]

(* ---- execute unit.  Returns the new state and the outcome of the cycle ---- *)
(* the instruction leaves the execute unit (eu.run) *)
RunIns(s, prog, fin) ==
  LET ev == fin.ev[s.k]
      i == prog[ev.i + 1]
      isRet == i.op = "ret"
      isStore == i.op \in StoreOps
      storeHit == isStore /\ HitIdx(s.l1d, ev.a) # {}
      kind == IF i.op \in StoreOps THEN "mem" ELSE IF WriteRegs(i) # {} THEN "reg" ELSE "none"
      s1 == [s EXCEPT !.k = @ + 1]
  IN
  IF isRet THEN [st |-> s1, flush |-> FALSE, to |-> 0, ret |-> TRUE]
  ELSE IF storeHit THEN [st |-> [s1 EXCEPT !.eproc = FALSE, !.l1d = TouchLRU(@, ev.a)], flush |-> FALSE, to |-> 0, ret |-> FALSE]
  ELSE
    LET s2 == [s1 EXCEPT !.eproc = FALSE, !.wbus = BusAdd(@, [kind |-> kind, regs |-> WriteRegs(i), k |-> s.k, line |-> IF isStore THEN ev.a - (ev.a % 64) ELSE -1]),
                          !.pendW = AddPend(@, WriteRegs(i)),
                          !.sq = IF isStore THEN Append(@, ev.a - (ev.a % 64)) ELSE @]
        nextPc == IF s.k < Len(fin.ev) THEN 4 * fin.ev[s.k + 1].i ELSE fin.pc
        pcChange == ev.t
        \* MVP-5 notifyJumpAddressResolved: remember the target, redirect the fetch unit, release the decode unit
        s3 == IF s.withBtb /\ i.op \in JumpOps
              THEN [s2 EXCEPT !.btb = BtbAdd(@, 4 * ev.i, nextPc), !.pc = nextPc, !.fcomplete = FALSE,
                              !.fclean = TRUE, !.dpend = FALSE]
              ELSE s2
    IN IF pcChange /\ s3.toCheck
       THEN [st |-> [s3 EXCEPT !.toCheck = FALSE], flush |-> (s3.expect # nextPc), to |-> nextPc, ret |-> FALSE]
       ELSE [st |-> s3, flush |-> FALSE, to |-> 0, ret |-> FALSE]

Idle(s) == [st |-> s, flush |-> FALSE, to |-> 0, ret |-> FALSE]

Execute(s, prog, fin) ==
  IF s.epend
  THEN LET r == s.erem - 1 IN
       IF r # 0 THEN Idle([s EXCEPT !.erem = r])
       ELSE LET ev == fin.ev[s.k]
                s1 == [s EXCEPT !.epend = FALSE, !.erem = 0,
                                !.l1d = IF s.ehit THEN @ ELSE PushLRU(@, ev.a - (ev.a % 64))]
                \* getFromL1D after the push touches the line (already most recent)
            IN RunIns([s1 EXCEPT !.ehit = FALSE], prog, fin)
  ELSE
    LET g == BusGet(s.ebus)
        s0 == IF s.eproc THEN s
              ELSE IF g.val = <<>> THEN [s EXCEPT !.ebus = g.bus]
              ELSE [s EXCEPT !.ebus = g.bus, !.eproc = TRUE, !.epc = g.val[1],
                             !.erem = ExecCycles(prog[g.val[1] \div 4 + 1].op)]
    IN IF ~s0.eproc THEN Idle(s0)
       ELSE LET r == s0.erem - 1 IN
            IF r # 0 THEN Idle([s0 EXCEPT !.erem = r])
            ELSE IF ~BusCanAdd(s0.wbus) THEN Idle([s0 EXCEPT !.erem = 1])
            ELSE
              \* the instruction at the head of the execute unit must be the next one of the sequential path
              IF s0.k > Len(fin.ev) \/ s0.epc # 4 * fin.ev[s0.k].i THEN Idle([s0 EXCEPT !.bad = TRUE, !.done = TRUE])
              ELSE
              LET i == prog[s0.epc \div 4 + 1]
                  ev == fin.ev[s0.k]
                  hit == BtbGet(s0.btb, s0.epc)
                  \* branch unit assertions (repeated on every retry of a stalled instruction, as in the code)
                  s1 == IF i.op \in JumpOps
                        THEN IF s0.withBtb /\ hit # {}
                             THEN [s0 EXCEPT !.toCheck = FALSE, !.erem = 0, !.pc = s0.btb[CHOOSE k \in hit : \A j \in hit : k <= j].dest,
                                             !.fcomplete = FALSE, !.fclean = TRUE]
                             ELSE [s0 EXCEPT !.toCheck = TRUE, !.expect = -1, !.erem = 0]
                        ELSE IF i.op \in CondOps THEN [s0 EXCEPT !.toCheck = TRUE, !.expect = s0.epc + 4, !.erem = 0]
                        ELSE IF s0.withBtb THEN [s0 EXCEPT !.toCheck = FALSE, !.erem = 0]
                        ELSE [s0 EXCEPT !.erem = 0]
              IN IF Hazard(s1, i) THEN Idle([s1 EXCEPT !.erem = 1])
                 ELSE IF i.op \in LoadOps /\ \E q \in 1 .. Len(s1.sq) : s1.sq[q] = ev.a - (ev.a % 64)
                      THEN Idle([s1 EXCEPT !.erem = 1])     \* a store to this line still waits for the write unit
                 ELSE IF i.op \in LoadOps
                      THEN IF HitIdx(s1.l1d, ev.a) # {}
                           THEN Idle([s1 EXCEPT !.epend = TRUE, !.ehit = TRUE, !.erem = LatL1, !.l1d = TouchLRU(@, ev.a)])
                           ELSE Idle([s1 EXCEPT !.epend = TRUE, !.ehit = FALSE, !.erem = LatMem])
                      ELSE RunIns(s1, prog, fin)

(* ---- write unit ---- *)
Write(s) ==
  IF s.wpend THEN IF s.wcyc - 1 = 0 THEN [s EXCEPT !.wcyc = 0, !.wpend = FALSE] ELSE [s EXCEPT !.wcyc = @ - 1]
  ELSE LET g == BusGet(s.wbus) IN
       IF g.val = <<>> THEN [s EXCEPT !.wbus = g.bus]
       ELSE LET e == g.val[1] IN
            IF e.kind = "reg" THEN [s EXCEPT !.wbus = g.bus, !.pendW = DelPend(@, e.regs)]
            ELSE IF e.kind = "mem"
                 THEN LET q == CHOOSE j \in 1 .. Len(s.sq) : s.sq[j] = e.line /\ \A h \in 1 .. (j - 1) : s.sq[h] # e.line
                      IN [s EXCEPT !.wbus = g.bus, !.wpend = TRUE, !.wcyc = LatMem,
                                   !.sq = SubSeq(@, 1, q - 1) \o SubSeq(@, q + 1, Len(@))]
            ELSE [s EXCEPT !.wbus = g.bus]

RECURSIVE Drain(_)
Drain(s) == IF s.wpend \/ ~BusEmpty(s.wbus) THEN Drain(Write([s EXCEPT !.cycle = @ + 1])) ELSE s

Complete(s) == s.fcomplete /\ ~s.eproc /\ ~s.wpend /\ BusEmpty(s.dbus) /\ BusEmpty(s.ebus) /\ BusEmpty(s.wbus)

(* one iteration of CPU.Run's loop *)
Cycle4(s, prog, fin) ==
  LET n == Len(prog)
      a == Decode(Fetch([s EXCEPT !.cycle = @ + 1], n), prog)
      x == Execute(a, prog, fin)
      b == Write(x.st)
  IN IF b.done THEN b
     \* `ret` ends the run at once: what is still queued for the write unit is never written (finding F09a)
     ELSE IF x.ret THEN [b EXCEPT !.done = TRUE, !.lost = {e.k : e \in Range(b.wbus.p) \cup Range(b.wbus.c)}]
     ELSE IF x.flush
          THEN LET d == Drain(b) IN
               [d EXCEPT !.pc = x.to, !.fproc = FALSE, !.fcomplete = FALSE,
                         !.dbus = Bus0, !.ebus = Bus0, !.wbus = Bus0, !.pendW = [r \in {} |-> 0],
                         !.dpend = FALSE, !.eproc = FALSE, !.erem = IF d.withBtb THEN 0 ELSE @, !.sq = <<>>]
     ELSE IF Complete(b) THEN [b EXCEPT !.done = TRUE]
     ELSE b

(* Fast-forward: a cycle in which nothing changes but latency counters going down by one (units     *)
(* counting a latency, or retrying a blocked step whose blocker is itself counting) repeats itself  *)
(* until the first of those counters is about to expire; those cycles are taken in one step (the    *)
(* 309-cycle memory accesses dominate every run).  The cycle in which a counter reaches zero is     *)
(* always simulated by Cycle4.                                                                      *)
Min2(a, b) == IF a < b THEN a ELSE b
RECURSIVE Run4(_, _, _, _)
Run4(s, prog, fin, fuel) ==
  IF s.done \/ fuel = 0 THEN s
  ELSE LET s1 == Cycle4(s, prog, fin)
           dF == s.frem - s1.frem
           dE == s.erem - s1.erem
           dW == s.wcyc - s1.wcyc
           pure == /\ ~s1.done
                   /\ [s1 EXCEPT !.cycle = s.cycle, !.frem = s.frem, !.erem = s.erem, !.wcyc = s.wcyc] = s
                   /\ dF \in {0, 1} /\ dE \in {0, 1} /\ dW \in {0, 1} /\ dF + dE + dW > 0
                   /\ (dF = 1 => s1.frem >= 2) /\ (dE = 1 => s1.erem >= 2) /\ (dW = 1 => s1.wcyc >= 2)
           big == 1000000
           d == Min2(IF dF = 1 THEN s1.frem ELSE big, Min2(IF dE = 1 THEN s1.erem ELSE big, IF dW = 1 THEN s1.wcyc ELSE big)) - 1
       IN IF pure
          THEN Run4([s1 EXCEPT !.cycle = @ + d, !.frem = @ - dF * d, !.erem = @ - dE * d, !.wcyc = @ - dW * d], prog, fin, fuel - 1)
          ELSE Run4(s1, prog, fin, fuel - 1)

(* lost = the executed instructions (1-based positions in fin.ev) whose write-back the run drops *)
ResP(prog, fin, withBtb) ==
  IF fin.status \notin {"ret", "end"} \/ fin.misal THEN [cyc |-> -1, lost |-> {}]
  ELSE LET s == Run4(S0(prog, withBtb), prog, fin, 60000) IN
       IF ~s.done \/ s.bad THEN [cyc |-> -1, lost |-> {}] ELSE [cyc |-> s.cycle + LatMem * Len(s.l1d), lost |-> s.lost]
Cyc4(prog, fin) == ResP(prog, fin, FALSE).cyc
Cyc5(prog, fin) == ResP(prog, fin, TRUE).cyc

(* the final state MVP-4/5 reach as coded: the sequential run without the effects of the lost write-backs. *)
(* No later instruction can depend on a lost register write (it would have waited for the write-back), and *)
(* a later load of a lost store sees the old bytes here as it does there.                                    *)
RECURSIVE SkipRun(_, _, _, _, _, _)
SkipRun(prog, st, lost, img, memSize, fuel) ==
  IF st.status # "run" \/ fuel = 0 THEN st
  ELSE LET st2 == Step(prog, st, img, memSize) IN
       SkipRun(prog, IF (st.n + 1) \in lost /\ st2.status = "run" THEN [st2 EXCEPT !.regs = st.regs, !.mem = st.mem] ELSE st2,
               lost, img, memSize, fuel - 1)
=======================================================================
