------------------------------ MODULE Codec ------------------------------
(***************************************************************************)
(* C16: the word codec.  Split(w) is the little-endian byte sequence of a  *)
(* 32-bit word (byte i = bits 8i..8i+7), Join is its inverse.  Both        *)
(* decompose per byte position:                                            *)
(*    Split(w)[i]  = SplitTab[i][byte i of w]                              *)
(*    Join(b)      = JoinTab[0][b0] + JoinTab[1][b1] + ... (mod 2^32)      *)
(* TLC checks the decomposition over a lattice, emits the 4 x 256 tables   *)
(* and a set of whole-word cases; the Go harness replays them on           *)
(* bytes.BytesFromLowBits / bytes.I32FromBytes and sweeps the 2^32 domain  *)
(* with expectations composed from the tables.                             *)
(***************************************************************************)
EXTENDS Word32, Json, TLC

VARIABLES phase, c
vars == <<phase, c>>

Split(w) == Bytes(w)
Join(b) == FromBytes(b[1], b[2], b[3], b[4])

(* word with byte value v at position i (0..3) and zeros elsewhere *)
AtPos(i, v) == Join([k \in 1 .. 4 |-> IF k = i + 1 THEN v ELSE 0])
Bit(k) == IF k < 16 THEN <<0, Pow2(k)>> ELSE <<Pow2(k - 16), 0>>

ByteOf(w, i) == Split(w)[i + 1]
Lemma(w) == /\ \A i \in 0 .. 3 : Split(w)[i + 1] = Split(AtPos(i, ByteOf(w, i)))[i + 1]
            /\ Join(Split(w)) = w
            /\ w = Add(Add(AtPos(0, ByteOf(w, 0)), AtPos(1, ByteOf(w, 1))),
                       Add(AtPos(2, ByteOf(w, 2)), AtPos(3, ByteOf(w, 3))))
ASSUME \A w \in LatticeW : Lemma(w)
ASSUME \A i \in 0 .. 3, v \in 0 .. 255 : Split(AtPos(i, v)) = [k \in 1 .. 4 |-> IF k = i + 1 THEN v ELSE 0]

I8s(bs) == [k \in 1 .. 4 |-> ToI8(bs[k])]

Init == phase = "gen" /\ c = [kind |-> "init"]
Next == /\ phase = "gen" /\ phase' = "done"
        /\ \/ \E i \in 0 .. 3, v \in 0 .. 255 :
                c' = [kind |-> "tab", pos |-> i, v |-> v, word |-> ToInt(AtPos(i, v)), bytes |-> I8s(Split(AtPos(i, v)))]
           \/ \E w \in LatticeW :
                c' = [kind |-> "word", pos |-> 0, v |-> 0, word |-> ToInt(w), bytes |-> I8s(Split(w))]
           \/ \E j \in 0 .. 31, k \in 0 .. 31 :
                LET w == Or32(Bit(j), Bit(k)) IN
                c' = [kind |-> "word", pos |-> 0, v |-> 0, word |-> ToInt(w), bytes |-> I8s(Split(w))]
Spec == Init /\ [][Next]_vars
Emit == phase = "done" => PrintT(ToJson(c))
=======================================================================
