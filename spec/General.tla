----------------------------- MODULE General -----------------------------
(***************************************************************************)
(* Program family "General" (C01, C07, C08, C12): every program of at most *)
(* MaxLen instructions over a template alphabet (ALU, immediates, loads,   *)
(* stores of all widths, forward branches and jumps, jal, counted backward *)
(* loops, ret), from several initial register files and memory images.     *)
(* The generator is written as actions (Extend, Seal) so that TLC's        *)
(* breadth-first search enumerates the family exhaustively and             *)
(* `-simulate` samples long programs; each sealed program carries the      *)
(* final state of the sequential machine (RV32!Step) as its expectation.   *)
(***************************************************************************)
EXTENDS ProgCommon

CONSTANTS MaxLen,     \* maximal number of templates
          MinLen,     \* programs shorter than this are not emitted
          Fuel,       \* sequential step bound; programs exceeding it are discarded
          ImageSet,   \* name of a set of <<register image, memory image>> pairs
          Alphabet    \* "full" | "alu" | "mem" | "ctl"

VARIABLES phase, prog, c
vars == <<phase, prog, c>>

MemSize == 256

T(op, rd, rs1, rs2, imm, tgt) == Ins(op, rd, rs1, rs2, imm, tgt)

AluT == { T("li", "t0", "zero", "zero", 5, 0), T("li", "t1", "zero", "zero", -7, 0),
          T("addi", "t0", "t0", "zero", 1, 0), T("addi", "t1", "t0", "zero", -3, 0),
          T("add", "t2", "t0", "t1", 0, 0), T("sub", "t0", "t2", "t1", 0, 0),
          T("mul", "t1", "t1", "t2", 0, 0), T("mv", "t2", "t0", "zero", 0, 0),
          T("slt", "t0", "t1", "t2", 0, 0), T("xor", "t2", "t2", "t1", 0, 0) }
LoadT == { T("lw", "t0", "a0", "zero", 0, 0), T("lw", "t1", "a0", "zero", 4, 0),
           T("lb", "t2", "a0", "zero", 1, 0), T("lw", "t2", "a1", "zero", 0, 0),
           T("lh", "t1", "a0", "zero", 2, 0) }
StoreT == { T("sw", "zero", "a0", "t0", 0, 0), T("sw", "zero", "a0", "t1", 4, 0),
            T("sb", "zero", "a0", "t2", 1, 0), T("sw", "zero", "a1", "t2", 0, 0),
            T("sh", "zero", "a0", "t1", 2, 0) }
CtlT == { T("beqz", "zero", "t0", "zero", 0, 2), T("bne", "zero", "t0", "t1", 0, 2),
          T("blt", "zero", "t1", "t2", 0, 3), T("j", "zero", "zero", "zero", 0, 2),
          T("jal", "ra", "zero", "zero", 0, 2), T("bltu", "zero", "t2", "t0", 0, 2),
          T("ret", "zero", "zero", "zero", 0, 0), T("nop", "zero", "zero", "zero", 0, 0),
          T("beq", "zero", "t1", "t1", 0, 1) }   \* always taken, to the very next instruction: a taken branch that needs no flush
(* counted backward loop: t3 is the trip counter and no other template writes it *)
LoopT == { <<T("addi", "t3", "t3", "zero", -1, 0), T("bnez", "zero", "t3", "zero", 0, -k)>> : k \in {2, 3, 4} }

Templates == CASE Alphabet = "full" -> AluT \cup LoadT \cup StoreT \cup CtlT
               [] Alphabet = "alu" -> AluT \cup CtlT
               \* addi a0, a0, 4 makes the base register of the next access a value that is still in flight (forwarded)
               [] Alphabet = "mem" -> LoadT \cup StoreT \cup {T("li", "t0", "zero", "zero", 5, 0), T("addi", "t1", "t0", "zero", -3, 0), T("addi", "a0", "a0", "zero", 4, 0)}
               [] Alphabet = "ctl" -> CtlT \cup {T("li", "t0", "zero", "zero", 5, 0), T("addi", "t0", "t0", "zero", 1, 0), T("lw", "t0", "a0", "zero", 0, 0), T("sw", "zero", "a0", "t1", 4, 0)}
               [] Alphabet = "loop" -> AluT \cup LoadT \cup StoreT \cup CtlT

RegImage(name) ==
  CASE name = "A" -> [r \in PRegs |-> IF r \in {"a0", "a1"} THEN FromInt(64) ELSE IF r = "t3" THEN FromInt(2) ELSE Zero32]
    [] name = "B" -> [r \in PRegs |-> CASE r = "a0" -> FromInt(64) [] r = "a1" -> FromInt(128) [] r = "t0" -> FromInt(-5)
                                        [] r = "t1" -> FromInt(7) [] r = "t2" -> MinInt32 [] r = "t3" -> FromInt(3) [] OTHER -> Zero32]
    [] name = "C" -> [r \in PRegs |-> CASE r = "a0" -> FromInt(192) [] r = "a1" -> FromInt(64) [] r = "t0" -> One32
                                        [] r = "t1" -> <<65535, 65535>> [] r = "t2" -> <<1, 0>> [] r = "t3" -> One32 [] OTHER -> Zero32]

Images == CASE ImageSet = "two" -> {<<"A", "ramp">>, <<"B", "high">>}
            [] ImageSet = "three" -> {<<"B", "high">>, <<"C", "ramp">>, <<"A", "zero">>}
            [] ImageSet = "one" -> {<<"B", "high">>}

Init == phase = "build" /\ prog = <<>> /\ c = [fam |-> "none"]

Extend == /\ phase = "build" /\ Len(prog) < MaxLen
          /\ \/ \E t \in Templates : prog' = Append(prog, t)
             \/ /\ Alphabet = "loop" /\ Len(prog) >= 1 /\ Len(prog) + 2 <= MaxLen
                /\ \E l \in LoopT : prog' = prog \o l
          /\ UNCHANGED <<phase, c>>

Seal == /\ phase = "build" /\ Len(prog) >= MinLen
        /\ \E im \in Images :
             LET p == Absolute(prog)
                 fin == Final(p, RegImage(im[1]), im[2], MemSize, Fuel)
             IN /\ Defined(fin) /\ fin.status # "err"
                /\ c' = CaseRec("General", p, RegImage(im[1]), im[2], MemSize, fin, {}, {}, Tags(p, fin), [a |-> 0])
        /\ phase' = "done" /\ UNCHANGED prog

Next == Extend \/ Seal
Spec == Init /\ [][Next]_vars

Emit == phase = "done" => PrintT(ToJson(c))
=======================================================================
