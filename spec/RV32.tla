------------------------------ MODULE RV32 ------------------------------
(***************************************************************************)
(* Sequential semantics of the 45 mnemonics majorana supports, written     *)
(* from the RISC-V RV32IM definition (and the README for the pseudo        *)
(* instructions li, mv, j, beqz, bnez, ble, nop, ret), NOT from            *)
(* risc/opcodes.go.                                                        *)
(*                                                                         *)
(* An instruction is a record                                              *)
(*   [op, rd, rs1, rs2, imm, tgt]                                          *)
(* with register names as strings ("zero", "ra", "t0", ...), a small       *)
(* integer immediate and tgt = index (0-based) of the target instruction   *)
(* for branches and jumps.  A program is a sequence of instructions;       *)
(* instruction i lives at byte address 4*i.                                *)
(*                                                                         *)
(* A machine state is a record                                             *)
(*   [pc, regs, mem, status, n, cyc1, ev]                                  *)
(*  regs : register name -> Word (the zero register is not stored)         *)
(*  mem  : sparse function address -> 0..255 over an image (see ImgByte)   *)
(*  status \in {"run","ret","end","err","oob","fuel"}; misal: some access   *)
(*         was not naturally aligned (such runs are outside C01's quantifier) *)
(*  n    : number of executed instructions                                 *)
(*  cyc1 : cycle ledger of the unpipelined MVP-1 latency model (C12)       *)
(*  ev   : executed path: per step the instruction index, the accessed     *)
(*         address (-1 if none) and whether control was transferred        *)
(***************************************************************************)
EXTENDS Word32, FiniteSets, TLC

(* latency table (common/latency, README) *)
LatMem == 309
LatL1 == 3
LatReg == 1
LatDecode == 1

ROps == {"add", "sub", "and", "or", "xor", "sll", "srl", "sra", "slt", "sltu", "mul", "div", "rem"}
IOps == {"addi", "andi", "ori", "xori", "slti", "slli", "srli", "srai"}
LoadOps == {"lb", "lh", "lw"}
StoreOps == {"sb", "sh", "sw"}
CondOps == {"beq", "bne", "blt", "bge", "bltu", "bgeu", "ble", "beqz", "bnez"}
JumpOps == {"j", "jal", "jalr"}
OtherOps == {"lui", "auipc", "li", "mv", "nop", "ret"}
AllOps == ROps \cup IOps \cup LoadOps \cup StoreOps \cup CondOps \cup JumpOps \cup OtherOps

ASSUME Cardinality(AllOps) = 45

Ins(op, rd, rs1, rs2, imm, tgt) ==
  [op |-> op, rd |-> rd, rs1 |-> rs1, rs2 |-> rs2, imm |-> imm, tgt |-> tgt]

(* ---- declared register sets (C02: exactly the registers read / written) ---- *)
ReadRegs(i) ==
  CASE i.op \in ROps -> {i.rs1, i.rs2}
    [] i.op \in IOps -> {i.rs1}
    [] i.op \in LoadOps -> {i.rs1}
    [] i.op \in StoreOps -> {i.rs1, i.rs2}     \* rs1 = base, rs2 = data
    [] i.op \in {"beq", "bne", "blt", "bge", "bltu", "bgeu", "ble"} -> {i.rs1, i.rs2}
    [] i.op \in {"beqz", "bnez"} -> {i.rs1}
    [] i.op = "jalr" -> {i.rs1}
    [] i.op = "mv" -> {i.rs1}
    [] OTHER -> {}
WriteRegs(i) ==
  CASE i.op \in ROps \cup IOps \cup LoadOps \cup {"lui", "auipc", "li", "mv", "jal", "jalr"} -> {i.rd}
    [] OTHER -> {}

Width(op) == CASE op \in {"lb", "sb"} -> 1 [] op \in {"lh", "sh"} -> 2 [] op \in {"lw", "sw"} -> 4

(* execute latency of the instruction (README / risc.go Cycles) *)
ExecCycles(op) == IF op \in LoadOps THEN 50 ELSE 1

(* ---- memory images ---- *)
ImgByte(img, a) ==
  CASE img = "zero" -> 0
    [] img = "ramp" -> (a * 7 + 3) % 256
    [] img = "high" -> (a * 37 + (a \div 64) * 11 + 128) % 256
    [] img = "ones" -> 255
MemByte(mem, img, a) == IF a \in DOMAIN mem THEN mem[a] ELSE ImgByte(img, a)

R(regs, r) == IF r = "zero" THEN Zero32 ELSE regs[r]
WReg(regs, r, v) == IF r = "zero" THEN regs ELSE [regs EXCEPT ![r] = v]

ALU(op, a, b) ==
  CASE op \in {"add", "addi"} -> Add(a, b)
    [] op = "sub" -> Sub(a, b)
    [] op \in {"and", "andi"} -> And32(a, b)
    [] op \in {"or", "ori"} -> Or32(a, b)
    [] op \in {"xor", "xori"} -> Xor32(a, b)
    [] op \in {"sll", "slli"} -> Sll(a, b)
    [] op \in {"srl", "srli"} -> Srl(a, b)
    [] op \in {"sra", "srai"} -> Sra(a, b)
    [] op \in {"slt", "slti"} -> IF LtS(a, b) THEN One32 ELSE Zero32
    [] op = "sltu" -> IF LtU(a, b) THEN One32 ELSE Zero32
    [] op = "mul" -> Mul(a, b)
    [] op = "div" -> DivT(a, b)
    [] op = "rem" -> RemT(a, b)

Taken(op, a, b) ==
  CASE op = "beq" -> a = b
    [] op = "bne" -> a # b
    [] op = "blt" -> LtS(a, b)
    [] op = "bge" -> ~LtS(a, b)
    [] op = "bltu" -> LtU(a, b)
    [] op = "bgeu" -> ~LtU(a, b)
    [] op = "ble" -> ~LtS(b, a)
    [] op = "beqz" -> a = Zero32
    [] op = "bnez" -> a # Zero32

(* the architectural effect of one instruction, as a record:               *)
(*   kind \in {"reg","mem","none","ret","err","oob"}; mis = not naturally aligned *)
(*   rd, val      register written (kind = "reg"; also for jal/jalr)        *)
(*   addr, bytes  stored bytes (kind = "mem")                               *)
(*   loads        addresses read                                            *)
(*   next         next pc                                                   *)
Effect(i, pc, regs, mem, img, memSize, progLen) ==
  LET a == R(regs, i.rs1)
      b == R(regs, i.rs2)
      immW == FromInt(i.imm)
      base == [kind |-> "none", rd |-> "zero", val |-> Zero32, addr |-> 0, bytes |-> <<>>,
               loads |-> <<>>, next |-> pc + 4, mis |-> FALSE]   \* mis: the access is not naturally aligned
      ea == ToInt(Add(a, immW))
  IN
  CASE i.op \in ROps ->
         IF i.op \in {"div", "rem"} /\ b = Zero32
         THEN [base EXCEPT !.kind = "err"]
         ELSE [base EXCEPT !.kind = "reg", !.rd = i.rd, !.val = ALU(i.op, a, b)]
    [] i.op \in IOps -> [base EXCEPT !.kind = "reg", !.rd = i.rd, !.val = ALU(i.op, a, immW)]
    [] i.op = "li" -> [base EXCEPT !.kind = "reg", !.rd = i.rd, !.val = immW]
    [] i.op = "mv" -> [base EXCEPT !.kind = "reg", !.rd = i.rd, !.val = a]
    [] i.op = "lui" -> [base EXCEPT !.kind = "reg", !.rd = i.rd, !.val = SllN(immW, 12)]
    [] i.op = "auipc" -> [base EXCEPT !.kind = "reg", !.rd = i.rd, !.val = Add(FromInt(pc), SllN(immW, 12))]
    [] i.op = "nop" -> base
    [] i.op = "ret" -> [base EXCEPT !.kind = "ret"]
    [] i.op \in LoadOps ->
         LET w == Width(i.op) IN
         IF ea < 0 \/ ea + w > memSize THEN [base EXCEPT !.kind = "oob"]
         ELSE LET B(k) == MemByte(mem, img, ea + k)
                  v == CASE w = 1 -> SextB(B(0))
                         [] w = 2 -> SextH(B(1) * 256 + B(0))
                         [] w = 4 -> FromBytes(B(0), B(1), B(2), B(3))
              IN [base EXCEPT !.kind = "reg", !.rd = i.rd, !.val = v, !.mis = (ea % w # 0),
                              !.loads = [k \in 1 .. w |-> ea + k - 1], !.addr = ea]
    [] i.op \in StoreOps ->
         LET w == Width(i.op) bs == Bytes(b) IN
         IF ea < 0 \/ ea + w > memSize THEN [base EXCEPT !.kind = "oob"]
         ELSE [base EXCEPT !.kind = "mem", !.addr = ea, !.mis = (ea % w # 0), !.bytes = [k \in 1 .. w |-> bs[k]]]
    [] i.op \in CondOps ->
         IF Taken(i.op, a, b)
         THEN IF i.tgt < 0 THEN [base EXCEPT !.kind = "err"]      \* undefined label
              ELSE [base EXCEPT !.next = 4 * i.tgt]
         ELSE base
    [] i.op = "j" -> IF i.tgt < 0 THEN [base EXCEPT !.kind = "err"] ELSE [base EXCEPT !.next = 4 * i.tgt]
    [] i.op = "jal" -> IF i.tgt < 0 THEN [base EXCEPT !.kind = "err"]
                       ELSE [base EXCEPT !.kind = "reg", !.rd = i.rd, !.val = FromInt(pc + 4), !.next = 4 * i.tgt]
    [] i.op = "jalr" ->
         LET t == ToInt(And32(Add(a, immW), <<65535, 65534>>)) IN
         IF t < 0 \/ t % 4 # 0 THEN [base EXCEPT !.kind = "oob"]
         ELSE [base EXCEPT !.kind = "reg", !.rd = i.rd, !.val = FromInt(pc + 4), !.next = t]

(* MVP-1 latency ledger for one executed instruction (C12) *)
Cyc1(i, eff) ==
  LatMem + LatDecode
  + (IF i.op \in LoadOps THEN LatMem ELSE 0)
  + ExecCycles(i.op)
  + (CASE eff.kind = "reg" -> LatReg
       [] eff.kind = "mem" -> LatMem
       [] OTHER -> 0)

(* ---- cycle-exact ledgers of the two other sequential variants (C12) ---- *)
(* MVP-2: one instruction window [from, from+64] (both ends included) replaces the    *)
(* per-instruction memory fetch; everything else as MVP-1.                            *)
Fetch2(win, pc) == IF pc >= win[1] /\ pc <= win[2] THEN LatL1 ELSE LatMem
Win2(win, pc) == IF pc >= win[1] /\ pc <= win[2] THEN win ELSE <<pc, pc + 64>>
(* MVP-3: LRU caches of 16 lines of 64 bytes, MRU first.  Instruction lines start at  *)
(* the first missing pc; data lines are aligned.                                      *)
CacheLines3 == 16
CovI(b, a) == b <= a /\ a < b + 64
HitIdx(c, a) == {k \in 1 .. Len(c) : CovI(c[k], a)}
TouchLRU(c, a) == IF HitIdx(c, a) = {} THEN c
                  ELSE LET k == CHOOSE x \in HitIdx(c, a) : \A y \in HitIdx(c, a) : x <= y
                       IN <<c[k]>> \o SubSeq(c, 1, k - 1) \o SubSeq(c, k + 1, Len(c))
PushLRU(c, b) == LET n == <<b>> \o c IN IF Len(n) > CacheLines3 THEN SubSeq(n, 1, CacheLines3) ELSE n
Cyc3(i, eff, l1i, l1d, pc) ==
  (IF HitIdx(l1i, pc) # {} THEN LatL1 ELSE LatMem) + LatDecode
  + (IF i.op \in LoadOps /\ eff.kind = "reg" THEN LatL1 + (IF HitIdx(l1d, eff.addr) # {} THEN 0 ELSE LatMem) ELSE 0)
  + ExecCycles(i.op)
  + (CASE eff.kind = "reg" -> LatReg
       [] eff.kind = "mem" -> IF HitIdx(l1d, eff.addr) # {} THEN LatL1 ELSE LatMem
       [] OTHER -> 0)
L1I3(l1i, pc) == IF HitIdx(l1i, pc) # {} THEN TouchLRU(l1i, pc) ELSE PushLRU(l1i, pc)
L1D3(i, eff, l1d) ==
  IF i.op \in LoadOps /\ eff.kind = "reg"
  THEN IF HitIdx(l1d, eff.addr) # {} THEN TouchLRU(l1d, eff.addr) ELSE PushLRU(l1d, eff.addr - (eff.addr % 64))
  ELSE IF eff.kind = "mem" THEN TouchLRU(l1d, eff.addr) ELSE l1d

InitStateM(regs, mem0) ==
  [pc |-> 0, regs |-> regs, mem |-> mem0, status |-> "run", n |-> 0, cyc1 |-> 0,
   cyc2 |-> 0, win2 |-> <<-1, -1>>, cyc3 |-> 0, l1i3 |-> <<>>, l1d3 |-> <<>>, misal |-> FALSE,
   ev |-> <<>>]
InitState(regs) == InitStateM(regs, <<>>)

(* one sequential step *)
Step(prog, st, img, memSize) ==
  IF st.status # "run" THEN st
  ELSE IF st.pc \div 4 >= Len(prog) \/ st.pc < 0 THEN [st EXCEPT !.status = "end"]
  ELSE
    LET i == prog[st.pc \div 4 + 1]
        e == Effect(i, st.pc, st.regs, st.mem, img, memSize, Len(prog))
        st1 == [st EXCEPT !.n = @ + 1, !.cyc1 = @ + Cyc1(i, e), !.misal = @ \/ e.mis,
                          !.cyc2 = @ + Cyc1(i, e) - LatMem + Fetch2(st.win2, st.pc), !.win2 = Win2(@, st.pc),
                          !.cyc3 = @ + Cyc3(i, e, st.l1i3, st.l1d3, st.pc),
                          !.l1i3 = L1I3(@, st.pc), !.l1d3 = L1D3(i, e, @),
                          \* ev: executed instruction index, accessed address (-1 if none), taken control transfer
                          !.ev = Append(@, [i |-> st.pc \div 4,
                                            a |-> IF e.kind \in {"reg", "mem"} /\ i.op \in LoadOps \cup StoreOps THEN e.addr ELSE -1,
                                            t |-> e.kind \in {"reg", "none"} /\ (e.next # st.pc + 4 \/ i.op \in JumpOps)])]
    IN
    CASE e.kind = "reg" -> [st1 EXCEPT !.regs = WReg(@, e.rd, e.val), !.pc = e.next]
      [] e.kind = "mem" ->
           LET rng == e.addr .. (e.addr + Len(e.bytes) - 1)
               m2 == [a \in (DOMAIN st.mem) \cup rng |->
                        IF a \in rng THEN e.bytes[a - e.addr + 1] ELSE st.mem[a]]
           IN [st1 EXCEPT !.mem = m2, !.pc = e.next]
      [] e.kind = "none" -> [st1 EXCEPT !.pc = e.next]
      [] e.kind = "ret" -> [st1 EXCEPT !.status = "ret"]
      [] OTHER -> [st1 EXCEPT !.status = e.kind]

=======================================================================
