----------------------------- MODULE Findings -----------------------------
(***************************************************************************)
(* Class predicates of the known findings (/verif/known_findings.json).    *)
(* Each is an operator over a program and its sequential execution         *)
(* (fin.ev = executed instructions with their accessed address and whether *)
(* they transferred control).  TLC evaluates them on every generated case  *)
(* and tags the case; a failing observation on the real code is counted    *)
(* under a finding only when the case carries the finding's tag AND the    *)
(* configuration is one the finding lists.  Every predicate documents what *)
(* it masks.  Cases outside all classes are the envelope on which the      *)
(* whole-machine properties are claimed at HEAD.                           *)
(***************************************************************************)
EXTENDS RV32, FiniteSets

LineOf(a) == a \div 64
Ev(fin) == fin.ev
InsAt(prog, fin, k) == prog[fin.ev[k].i + 1]
IsLoadAt(prog, fin, k) == InsAt(prog, fin, k).op \in LoadOps
IsStoreAt(prog, fin, k) == InsAt(prog, fin, k).op \in StoreOps
Writes(prog, fin, k) == WriteRegs(InsAt(prog, fin, k)) \ {"zero"}
Reads(prog, fin, k) == ReadRegs(InsAt(prog, fin, k)) \ {"zero"}
N(fin) == Len(fin.ev)

(* j depends (through registers, transitively) on the value produced by h *)
RECURSIVE DependsOn(_, _, _, _)
DependsOn(prog, fin, j, h) ==
  /\ h < j
  /\ \/ (Writes(prog, fin, h) \cap Reads(prog, fin, j)) # {}
     \/ \E m \in (h + 1) .. (j - 1) : (Writes(prog, fin, m) \cap Reads(prog, fin, j)) # {} /\ DependsOn(prog, fin, m, h)

(* a store whose line no earlier executed load brought into the cache *)
StoreMissAt(prog, fin, k) ==
  /\ IsStoreAt(prog, fin, k)
  /\ ~\E j \in 1 .. (k - 1) : IsLoadAt(prog, fin, j) /\ LineOf(fin.ev[j].a) = LineOf(fin.ev[k].a)

(* F09a (MVP-4/5): `ret` ends the run while the write unit is still busy with a store *)
(* that missed the cache (309 cycles): the store itself and every later write-back     *)
(* are dropped.  Masks: runs ending in ret with a store miss among the last 310        *)
(* executed instructions, on MVP-4 and MVP-5.                                          *)
RetAfterStoreMiss(prog, fin) ==
  fin.status = "ret" /\ \E k \in 1 .. N(fin) : N(fin) - k <= 310 /\ StoreMissAt(prog, fin, k)

(* F09b (MVP-6.0 .. 8, >= 2 units): the `ret` path drains the write units only, so a   *)
(* load or store still executing in another unit is dropped.  Masks: runs ending in    *)
(* ret with a load or store among the last 310 executed instructions.                  *)
RetDropsInflight(prog, fin) ==
  fin.status = "ret" /\ \E k \in 1 .. N(fin) : N(fin) - k <= 310 /\ (IsLoadAt(prog, fin, k) \/ IsStoreAt(prog, fin, k))
(* on MVP-7.0 .. 8 the stores still in flight at ret are completed by the final drain   *)
(* loop of Run; only the loads (whose register write-back is dropped) are affected      *)
RetDropsInflightLoad(prog, fin) ==
  fin.status = "ret" /\ \E k \in 1 .. N(fin) : N(fin) - k <= 310 /\ IsLoadAt(prog, fin, k)

(* F03a (MVP-6.0, >= 2 units): a pipeline flush (taken branch or jump) resets every    *)
(* execute unit, including those running instructions OLDER than the branch.  Masks:   *)
(* runs with a taken control transfer that has a load or store among the 310 executed  *)
(* instructions before it.                                                             *)
FlushDropsOlder(prog, fin) ==
  \E k \in 1 .. N(fin) : /\ fin.ev[k].t
                         /\ \E j \in 1 .. (k - 1) : k - j <= 310 /\ (IsLoadAt(prog, fin, j) \/ IsStoreAt(prog, fin, j))

(* F10a (MVP-6.x): a store that misses the cache is sent to memory by the write unit   *)
(* 309 cycles later without allocating; a load of the same line issued meanwhile       *)
(* fetches the old line, which is written back over the store at the end.  Masks: runs *)
(* with a store miss followed by a load of the same line.                              *)
StoreMissThenLoad(prog, fin) ==
  \E k \in 1 .. N(fin) : /\ StoreMissAt(prog, fin, k)
                         /\ \E j \in (k + 1) .. N(fin) : IsLoadAt(prog, fin, j) /\ LineOf(fin.ev[j].a) = LineOf(fin.ev[k].a)

(* F04a (MVP-6.3 .. 8): register renaming lets a younger write to r start while an     *)
(* older write to r is in flight; results are committed in completion order and the    *)
(* forwarding source is chosen among both writers.  Masks: runs where two executed     *)
(* instructions i < j write the same register, j does not read it, nothing between     *)
(* them reads it, and either i is a load or j follows within 10 instructions.          *)
WawRenamed(prog, fin) ==
  \E i \in 1 .. N(fin), j \in 1 .. N(fin) :
    /\ i < j
    /\ \E r \in Writes(prog, fin, i) : /\ r \in Writes(prog, fin, j)
                                       /\ r \notin Reads(prog, fin, j)
                                       /\ \A m \in (i + 1) .. (j - 1) : r \notin Reads(prog, fin, m)
    /\ (IsLoadAt(prog, fin, i) \/ j - i <= 10)

(* F10b (MVP-6.x, >= 2 units): a store to a line whose fetch (by an older load) is     *)
(* still in flight misses the cache and bypasses it; the fetched line then holds the   *)
(* old bytes.  Masks: a load that first touches a line followed within 310 executed    *)
(* instructions by a store to the same line that does not depend on the loaded value.  *)
LoadMissThenStore(prog, fin) ==
  \E i \in 1 .. N(fin), j \in 1 .. N(fin) :
    /\ i < j /\ j - i <= 310
    /\ IsLoadAt(prog, fin, i) /\ IsStoreAt(prog, fin, j) /\ LineOf(fin.ev[i].a) = LineOf(fin.ev[j].a)
    /\ ~\E h \in 1 .. (i - 1) : IsLoadAt(prog, fin, h) /\ LineOf(fin.ev[h].a) = LineOf(fin.ev[i].a)
    \* the store does not wait for the line: it reads no register written by a load of that line
    /\ \A h \in i .. (j - 1) : (IsLoadAt(prog, fin, h) /\ LineOf(fin.ev[h].a) = LineOf(fin.ev[j].a))
                                   => ~DependsOn(prog, fin, j, h)

(* F10c (MVP-7.0 .. 8, >= 3 cores): the control unit tracks register hazards only;     *)
(* two memory instructions on different cores are ordered by their latencies, not by   *)
(* program order.  Masks: two executed memory instructions, at least one a store, on   *)
(* the same cache line, at most 310 executed instructions apart.                        *)
MemDepInflight(prog, fin) ==
  \E i \in 1 .. N(fin), j \in 1 .. N(fin) :
    /\ i < j /\ j - i <= 310
    /\ (IsStoreAt(prog, fin, i) \/ IsStoreAt(prog, fin, j))
    /\ (IsStoreAt(prog, fin, i) \/ IsLoadAt(prog, fin, i)) /\ (IsStoreAt(prog, fin, j) \/ IsLoadAt(prog, fin, j))
    /\ LineOf(fin.ev[i].a) = LineOf(fin.ev[j].a)

(* F04b (MVP-6.3 and 7.0, >= 3 units): a younger instruction that overwrites r is renamed  *)
(* and completes while an older reader of r is still waiting for a forwarded load      *)
(* value; operands are read without the reader's tag, so the reader sees the younger   *)
(* value.  Masks: i reads r and a register loaded at most 10 instructions earlier, and *)
(* some j within 10 instructions after i writes r.                                     *)
WarRenamed(prog, fin) ==
  \E i \in 1 .. N(fin), j \in 1 .. N(fin) :
    /\ i < j /\ j - i <= 10
    /\ (Reads(prog, fin, i) \cap Writes(prog, fin, j)) # {}
    /\ \E h \in 1 .. (i - 1) : i - h <= 10 /\ IsLoadAt(prog, fin, h) /\ (Writes(prog, fin, h) \cap Reads(prog, fin, i)) # {}

(* F03b (MVP-6.1 .. 6.3 with >= 2 units, MVP-7.0 .. 8 with >= 3 cores): a conditional branch that waits for a loaded value  *)
(* resolves late; instructions fetched after it have already been dispatched to other  *)
(* units and some of their effects survive the flush (register writes, stores; on      *)
(* MVP-8 a wrong-path load flushed in the middle of its line transfer leaves the line  *)
(* in L1 with state Invalid and a later access panics).  Masks: a taken conditional    *)
(* branch that reads a register loaded at most 10 executed instructions earlier and    *)
(* that skips at least one instruction.                                                *)
ShadowOfSlowBranch(prog, fin) ==
  \E k \in 1 .. N(fin) :
    /\ fin.ev[k].t /\ InsAt(prog, fin, k).op \in CondOps
    /\ fin.ev[k].i + 1 < Len(prog)
    /\ \E h \in 1 .. (k - 1) : k - h <= 10 /\ IsLoadAt(prog, fin, h) /\ (Writes(prog, fin, h) \cap Reads(prog, fin, k)) # {}

(* F03c (MVP-6.0): the flush drain compares the sequence id of a pending write-back    *)
(* (pc + 1000 x number of jumps so far) with the PC of the flushing instruction, so    *)
(* after the first taken transfer every later flush discards the write-backs still     *)
(* queued behind a busy write unit.  Masks: a taken transfer that is not the first     *)
(* one and has a store miss among the 310 executed instructions before it.             *)
LaterFlushAfterStoreMiss(prog, fin) ==
  \E k \in 1 .. N(fin) : /\ fin.ev[k].t
                         /\ \E e \in 1 .. (k - 1) : fin.ev[e].t
                         /\ \E j \in 1 .. (k - 1) : k - j <= 310 /\ StoreMissAt(prog, fin, j)

(* F05a (MVP-8, >= 2 cores): when more than the 32 lines of the shared L3 are touched  *)
(* and lines are dirty in the L1s, an L3 eviction can race with the write-back of an   *)
(* L1 sub-line: the snoop panics 'memory address should exist'.  Masks: runs that      *)
(* touch more than 32 distinct 128-byte lines and execute at least one store.          *)
L3Overflow(prog, fin) ==
  /\ \E k \in 1 .. N(fin) : IsStoreAt(prog, fin, k)
  /\ Cardinality({fin.ev[k].a \div 128 : k \in {x \in 1 .. N(fin) : fin.ev[x].a >= 0}}) > 32

(* F03d (MVP-6.1 .. 6.3, >= 2 units): a store that textually follows a taken branch or *)
(* jump can be dispatched in the same cycle; when its line is already in the cache it  *)
(* is written at once, before the flush.  Masks: a taken control transfer whose next   *)
(* instruction in the text is a store, when some load was executed before it.          *)
ShadowStoreHit(prog, fin) ==
  \E k \in 1 .. N(fin) :
    /\ fin.ev[k].t
    /\ fin.ev[k].i + 2 <= Len(prog) /\ prog[fin.ev[k].i + 2].op \in StoreOps
    /\ \E h \in 1 .. (k - 1) : IsLoadAt(prog, fin, h)

(* F03e (MVP-6.0 .. 8, >= 2 units): an instruction fetched after a taken branch or jump *)
(* is executed speculatively; when it raises an error (division by zero, a branch to   *)
(* an undefined label) Run returns that error although the instruction is never        *)
(* reached.  Masks: a taken control transfer followed in the text, within 8            *)
(* instructions, by a div/rem or by a transfer to an undefined label.                  *)
ShadowTrap(prog, fin) ==
  \E k \in 1 .. N(fin) :
    /\ fin.ev[k].t
    /\ \E d \in 1 .. 8 : /\ fin.ev[k].i + 1 + d <= Len(prog)
                         /\ LET x == prog[fin.ev[k].i + 1 + d] IN
                            x.op \in {"div", "rem"} \/ (x.op \in CondOps \cup {"j", "jal"} /\ x.tgt = -1)

(* F04c (MVP-6.3 with >= 3 units): a memory instruction that waits behind another memory instruction reads its *)
(* base register late; a younger instruction that writes that register (renamed, so not held back) completes  *)
(* first and the access uses the new base.  Masks: a load/store i directly preceded (within 2) by another      *)
(* memory instruction, whose base register is written by an instruction at most 3 positions after i.           *)
WarBaseAfterMem(prog, fin) ==
  \E i \in 2 .. N(fin), j \in 1 .. N(fin) :
    /\ i < j /\ j - i <= 3
    /\ InsAt(prog, fin, i).op \in LoadOps \cup StoreOps
    /\ InsAt(prog, fin, i).rs1 \in Writes(prog, fin, j)
    /\ \E h \in 1 .. (i - 1) : i - h <= 2 /\ InsAt(prog, fin, h).op \in LoadOps \cup StoreOps

(* F03f (MVP-6.1 .. 6.3 and MVP-8 with >= 2 units): a conditional branch that waits for a loaded value and is  *)
(* NOT taken, followed within 4 executed instructions by a taken conditional branch whose next instruction in *)
(* the text is a jump: the run ends early (the wrong-path jump takes effect).  Witness only; not minimised.   *)
SlowBranchThenShadowJump(prog, fin) ==
  \E k \in 1 .. N(fin), m \in 1 .. N(fin) :
    /\ k < m /\ m - k <= 4
    /\ InsAt(prog, fin, k).op \in CondOps /\ ~fin.ev[k].t
    /\ \E h \in 1 .. (k - 1) : k - h <= 10 /\ IsLoadAt(prog, fin, h) /\ (Writes(prog, fin, h) \cap Reads(prog, fin, k)) # {}
    /\ InsAt(prog, fin, m).op \in CondOps /\ fin.ev[m].t
    /\ fin.ev[m].i + 2 <= Len(prog) /\ prog[fin.ev[m].i + 2].op \in {"j", "jal"}

Tags(prog, fin) ==
  (IF RetAfterStoreMiss(prog, fin) THEN {"ret_after_store_miss"} ELSE {})
  \cup (IF RetDropsInflight(prog, fin) THEN {"ret_drops_inflight"} ELSE {})
  \cup (IF RetDropsInflightLoad(prog, fin) THEN {"ret_drops_inflight_load"} ELSE {})
  \cup (IF FlushDropsOlder(prog, fin) THEN {"flush_drops_older"} ELSE {})
  \cup (IF StoreMissThenLoad(prog, fin) THEN {"store_miss_then_load"} ELSE {})
  \cup (IF WawRenamed(prog, fin) THEN {"waw_renamed"} ELSE {})
  \cup (IF LoadMissThenStore(prog, fin) THEN {"load_miss_then_store"} ELSE {})
  \cup (IF MemDepInflight(prog, fin) THEN {"mem_dep_inflight"} ELSE {})
  \cup (IF WarRenamed(prog, fin) THEN {"war_renamed"} ELSE {})
  \cup (IF ShadowOfSlowBranch(prog, fin) THEN {"shadow_of_slow_branch"} ELSE {})
  \cup (IF LaterFlushAfterStoreMiss(prog, fin) THEN {"later_flush_after_store_miss"} ELSE {})
  \cup (IF ShadowStoreHit(prog, fin) THEN {"shadow_store_hit"} ELSE {})
  \cup (IF ShadowTrap(prog, fin) THEN {"shadow_trap"} ELSE {})
  \cup (IF WarBaseAfterMem(prog, fin) THEN {"war_base_after_mem"} ELSE {})
  \cup (IF SlowBranchThenShadowJump(prog, fin) THEN {"slow_branch_then_shadow_jump"} ELSE {})
  \cup (IF N(fin) > 150 /\ L3Overflow(prog, fin) THEN {"l3_overflow_with_stores"} ELSE {})
=======================================================================
